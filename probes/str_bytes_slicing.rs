use vstd::prelude::*;
use vstd::string::*;
verus! {

fn probe(name: &str, at: usize) -> (r: &str)
    requires at < name.spec_bytes().len(), vstd::utf8::is_char_boundary(name.spec_bytes(), at as int + 1),
    ensures r.spec_bytes() == name.spec_bytes().subrange(at as int + 1, name.spec_bytes().len() as int)
{
    let n = name.len();
    assert(n == name.spec_bytes().len());
    let version_string = &name[at + 1..];
    version_string
}

fn probe2(name: &str, a: usize, b: usize) -> (r: &str)
    requires a <= b <= name.spec_bytes().len(), vstd::utf8::is_char_boundary(name.spec_bytes(), a as int), vstd::utf8::is_char_boundary(name.spec_bytes(), b as int),
    ensures r.spec_bytes() == name.spec_bytes().subrange(a as int, b as int)
{
    &name[a..b]
}
fn probe3(name: &str, b: usize) -> (r: &str)
    requires b <= name.spec_bytes().len(), vstd::utf8::is_char_boundary(name.spec_bytes(), b as int),
    ensures r.spec_bytes() == name.spec_bytes().subrange(0, b as int)
{
    &name[..b]
}
fn probe4(a: &str, b: &str) -> (r: bool)
    ensures r == (a.spec_bytes() == b.spec_bytes())
{
    a == b
}

}
fn main() {}
