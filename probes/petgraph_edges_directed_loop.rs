use vstd::prelude::*;
use vstd::std_specs::iter::*;
use petgraph::{graph::{NodeIndex, EdgeIndex}, stable_graph::{StableDiGraph, StableGraph, EdgeReference, Edges}, Direction, Directed, visit::EdgeRef};
verus! {
#[verifier::external_trait_specification]
pub trait ExEdgeType { type ExternalTraitSpecificationFor: petgraph::EdgeType; }
#[verifier::external_trait_specification]
pub unsafe trait ExIndexType: Copy + Default + core::hash::Hash + Ord + core::fmt::Debug + 'static { type ExternalTraitSpecificationFor: petgraph::graph::IndexType; }

#[verifier::external_type_specification]
#[verifier::external_body]
#[verifier::reject_recursive_types(N)]
#[verifier::reject_recursive_types(E)]
#[verifier::reject_recursive_types(Ty)]
#[verifier::reject_recursive_types(Ix)]
pub struct ExStableGraph<N, E, Ty, Ix>(StableGraph<N, E, Ty, Ix>);
#[verifier::external_type_specification]
#[verifier::external_body]
#[verifier::reject_recursive_types(Ix)]
pub struct ExNodeIndex<Ix>(NodeIndex<Ix>);
#[verifier::external_type_specification]
#[verifier::external_body]
pub struct ExDirected(Directed);
#[verifier::external_type_specification]
pub struct ExDirection(Direction);
#[verifier::external_type_specification]
#[verifier::external_body]
#[verifier::reject_recursive_types(E)]
#[verifier::reject_recursive_types(Ix)]
pub struct ExEdgeReference<'a, E: 'a, Ix>(EdgeReference<'a, E, Ix>);
#[verifier::external_type_specification]
#[verifier::external_body]
#[verifier::reject_recursive_types(E)]
#[verifier::reject_recursive_types(Ty)]
#[verifier::reject_recursive_types(Ix)]
pub struct ExEdges<'a, E: 'a, Ty: petgraph::EdgeType, Ix: 'a + petgraph::graph::IndexType>(Edges<'a, E, Ty, Ix>);

pub enum Edge { Alias(usize), Argument(usize), Dependency }
pub struct Node { pub x: u32 }

pub uninterp spec fn er_src<'a, E, Ix>(e: EdgeReference<'a, E, Ix>) -> NodeIndex<Ix>;
pub uninterp spec fn er_w<'a, E, Ix>(e: EdgeReference<'a, E, Ix>) -> E;

pub assume_specification<'a, Ix: petgraph::graph::IndexType, E>[<EdgeReference<'a, E, Ix> as EdgeRef>::source](e: &EdgeReference<'a, E, Ix>) -> (r: <EdgeReference<'a, E, Ix> as EdgeRef>::NodeId)
    ;
pub assume_specification<'a, 'b, Ix: petgraph::graph::IndexType, E>[<EdgeReference<'a, E, Ix> as EdgeRef>::weight](e: &'b EdgeReference<'a, E, Ix>) -> (r: &'b E)
    ensures *r == er_w(*e);

pub assume_specification<'a, Ix: petgraph::graph::IndexType, E>[EdgeReference::<'a, E, Ix>::weight](e: &EdgeReference<'a, E, Ix>) -> (r: &'a E)
    ensures *r == er_w(*e);
pub assume_specification<N, E, Ty: petgraph::EdgeType, Ix: petgraph::graph::IndexType>[StableGraph::<N, E, Ty, Ix>::edges_directed](g: &StableGraph<N, E, Ty, Ix>, a: NodeIndex<Ix>, dir: Direction) -> (r: Edges<'_, E, Ty, Ix>)
    ensures r.obeys_prophetic_iter_laws(), r.decrease() is Some;
pub assume_specification<'a, E, Ty: petgraph::EdgeType, Ix: petgraph::graph::IndexType>[<Edges<'a, E, Ty, Ix> as Iterator>::next](it: &mut Edges<'a, E, Ty, Ix>) -> (r: Option<<Edges<'a, E, Ty, Ix> as Iterator>::Item>);

fn count_args(g: &StableDiGraph<Node, Edge>, n: NodeIndex) -> u32 {
    let mut c = 0u32;
    for e in it: g.edges_directed(n, Direction::Incoming)
        invariant it.iter.obeys_prophetic_iter_laws(), it.iter.decrease() is Some,
    {
        match e.weight() {
            Edge::Argument(i) => { if c < 1000 { c = c + 1; } }
            Edge::Alias(_) | Edge::Dependency => {}
        }
        let s = e.source();
    }
    c
}
}
fn main() {}
