use vstd::prelude::*;
verus! {
#[derive(Debug, Copy, Clone, PartialEq, Eq, Hash)]
pub enum HeapType { Concrete(u32), Func, Extern }
#[derive(Debug, Copy, Clone, PartialEq, Eq, Hash)]
pub struct CoreRefType { pub nullable: bool, pub heap_type: HeapType }
#[derive(Debug, Copy, Clone, PartialEq, Eq, Hash)]
pub enum CoreType { I32, I64, Ref(CoreRefType) }
#[derive(Debug, Clone, PartialEq, Eq, Hash)]
pub struct CoreFuncType { pub params: Vec<CoreType>, pub results: Vec<CoreType> }


impl vstd::std_specs::cmp::PartialEqSpecImpl for HeapType {
    open spec fn obeys_eq_spec() -> bool { true }
    open spec fn eq_spec(&self, other: &HeapType) -> bool { *self == *other }
}
impl vstd::std_specs::cmp::PartialEqSpecImpl for CoreRefType {
    open spec fn obeys_eq_spec() -> bool { true }
    open spec fn eq_spec(&self, other: &CoreRefType) -> bool { *self == *other }
}
impl vstd::std_specs::cmp::PartialEqSpecImpl for CoreType {
    open spec fn obeys_eq_spec() -> bool { true }
    open spec fn eq_spec(&self, other: &CoreType) -> bool { *self == *other }
}
impl vstd::std_specs::cmp::PartialEqSpecImpl for CoreFuncType {
    open spec fn obeys_eq_spec() -> bool { true }
    open spec fn eq_spec(&self, other: &CoreFuncType) -> bool { self.params@ == other.params@ && self.results@ == other.results@ }
}
fn e1(a: &CoreRefType, b: &CoreRefType) -> (r: bool) ensures r == (*a == *b) { a == b }
fn e2(a: &CoreType, b: &CoreType) -> (r: bool) ensures r == (*a == *b) { !(a != b) }
fn e3(a: &CoreFuncType, b: &CoreFuncType) -> (r: bool) ensures r == (a.params@ == b.params@ && a.results@ == b.results@) { a == b }
fn e4(a: &Option<u32>, b: &Option<u32>) -> (r: bool) ensures r == (*a == *b) { !(a != b) }
fn e5(a: &bool, b: &bool) -> (r: bool) ensures r == (*a == *b) { a == b }
}
fn main() {}
