use vstd::prelude::*;
use vstd::std_specs::iter::*;
use indexmap::IndexMap;
verus! {

#[verifier::external_type_specification]
#[verifier::external_body]
#[verifier::reject_recursive_types(K)]
#[verifier::reject_recursive_types(V)]
#[verifier::reject_recursive_types(S)]
pub struct ExIndexMap<K, V, S>(IndexMap<K, V, S>);

#[verifier::external_type_specification]
#[verifier::external_body]
#[verifier::reject_recursive_types(K)]
#[verifier::reject_recursive_types(V)]
pub struct ExIter<'a, K, V>(indexmap::map::Iter<'a, K, V>);

pub uninterp spec fn im_view<K, V, S>(m: &IndexMap<K, V, S>) -> Seq<(K, V)>;

pub assume_specification<'a, K, V, S>[IndexMap::<K, V, S>::iter](m: &'a IndexMap<K, V, S>) -> (r: indexmap::map::Iter<'a, K, V>)
    ensures r.remaining().len() == im_view(m).len(),
        forall|i: int| 0 <= i < im_view(m).len() ==> *r.remaining()[i].0 == im_view(m)[i].0 && *r.remaining()[i].1 == im_view(m)[i].1,
        r.obeys_prophetic_iter_laws(), r.decrease() is Some,
;

pub assume_specification<'a, K, V>[<indexmap::map::Iter<'a, K, V> as Iterator>::next](it: &mut indexmap::map::Iter<'a, K, V>) -> (r: Option<<indexmap::map::Iter<'a, K, V> as Iterator>::Item>);

pub broadcast axiom fn ax_indexmap_iter_obeys<'a, K, V>(it: indexmap::map::Iter<'a, K, V>)
    ensures #[trigger] it.obeys_prophetic_iter_laws();

fn f(m: &IndexMap<String, u32>) -> (r: u32)
{
    broadcast use ax_indexmap_iter_obeys;
    let mut n = 0u32;
    for (k, v) in it: m.iter()
        invariant n <= it.index@, it.iter.obeys_prophetic_iter_laws(), it.iter.decrease() is Some,
    {
        if n < 100 { n = n + 1; }
    }
    n
}

}
fn main() {}
