use vstd::prelude::*;
verus! {

pub struct Error;
pub type Result<T> = core::result::Result<T, Error>;
macro_rules! bail { ($($t:tt)*) => { return Err(Error) } }
pub struct Types;
pub assume_specification<'a, T: Copy>[Option::<&'a T>::copied](o: Option<&'a T>) -> (r: Option<T>)
  ensures r == (match o { Some(x) => Some(*x), None => None });


#[derive(Debug, Clone, Copy, PartialEq, Eq, Hash)]
pub enum SubtypeCheck {
    Covariant,
    Contravariant,
}

#[derive(Debug, Clone)]
pub enum CoreExtern {
    Func(CoreFuncType),
        Table {
        element_type: CoreRefType,
        initial: u64,
        maximum: Option<u64>,
        table64: bool,
        shared: bool,
    },
        Memory {
        memory64: bool,
        shared: bool,
        initial: u64,
        maximum: Option<u64>,
        page_size_log2: Option<u32>,
    },
        Global {
        val_type: CoreType,
        mutable: bool,
        shared: bool,
    },
    Tag(CoreFuncType),
}
#[derive(Debug, Copy, Clone, PartialEq, Eq, Hash)]
pub enum CoreType {
    I32,
    I64,
    F32,
    F64,
    V128,
    Ref(CoreRefType),
}
#[derive(Debug, Copy, Clone, PartialEq, Eq, Hash)]
pub struct CoreRefType {
    pub nullable: bool,
    pub heap_type: HeapType,
}
#[derive(Debug, Copy, Clone, PartialEq, Eq, Hash)]
pub enum HeapType {
    Concrete(u32),
    Func,
    Extern,
    Any,
    None,
    NoExtern,
    NoFunc,
    Eq,
    Struct,
    Array,
    I31,
    Exn,
    NoExn,
    Cont,
    NoCont,
}
#[derive(Debug, Clone, PartialEq, Eq, Hash)]
pub struct CoreFuncType {
    pub params: Vec<CoreType>,
    pub results: Vec<CoreType>,
}



impl vstd::std_specs::cmp::PartialEqSpecImpl for HeapType {
    open spec fn obeys_eq_spec() -> bool { true }
    open spec fn eq_spec(&self, other: &HeapType) -> bool { *self == *other }
}
impl vstd::std_specs::cmp::PartialEqSpecImpl for CoreRefType {
    open spec fn obeys_eq_spec() -> bool { true }
    open spec fn eq_spec(&self, other: &CoreRefType) -> bool { *self == *other }
}
impl vstd::std_specs::cmp::PartialEqSpecImpl for CoreType {
    open spec fn obeys_eq_spec() -> bool { true }
    open spec fn eq_spec(&self, other: &CoreType) -> bool { *self == *other }
}
impl vstd::std_specs::cmp::PartialEqSpecImpl for CoreFuncType {
    open spec fn obeys_eq_spec() -> bool { true }
    open spec fn eq_spec(&self, other: &CoreFuncType) -> bool { self.params@ == other.params@ && self.results@ == other.results@ }
}
pub open spec fn cft_eq(x: CoreFuncType, y: CoreFuncType) -> bool { x.params@ == y.params@ && x.results@ == y.results@ }
pub open spec fn limits_ok(ai: u64, am: Option<u64>, bi: u64, bm: Option<u64>) -> bool {
    ai >= bi && match (am, bm) { (Some(x), Some(y)) => x <= y, (None, Some(_)) => false, _ => true }
}
pub open spec fn core_extern_sub(a: CoreExtern, b: CoreExtern) -> bool {
    match (a, b) {
        (CoreExtern::Func(x), CoreExtern::Func(y)) => cft_eq(x, y),
        (CoreExtern::Tag(x), CoreExtern::Tag(y)) => cft_eq(x, y),
        (CoreExtern::Table{element_type: ae, initial: ai, maximum: am, table64: a64, shared: ash},
         CoreExtern::Table{element_type: be, initial: bi, maximum: bm, table64: b64, shared: bsh}) =>
            ae == be && limits_ok(ai, am, bi, bm) && a64 == b64 && ash == bsh,
        (CoreExtern::Memory{memory64: a64, shared: ash, initial: ai, maximum: am, page_size_log2: ap},
         CoreExtern::Memory{memory64: b64, shared: bsh, initial: bi, maximum: bm, page_size_log2: bp}) =>
            a64 == b64 && ash == bsh && limits_ok(ai, am, bi, bm) && ap == bp,
        (CoreExtern::Global{val_type: av, mutable: amu, shared: ash},
         CoreExtern::Global{val_type: bv, mutable: bmu, shared: bsh}) =>
            av == bv && amu == bmu && ash == bsh,
        _ => false,
    }
}
pub struct SubtypeChecker { kinds: Vec<SubtypeCheck> }
impl SubtypeChecker {
fn kind(&self) -> SubtypeCheck {
        self.kinds
            .last()
            .copied()
            .unwrap_or(SubtypeCheck::Covariant)
    }
fn expected_found<'b, T>(
        &self,
        a: &'b T,
        at: &'b Types,
        b: &'b T,
        bt: &'b Types,
    ) -> (&'b T, &'b Types, &'b T, &'b Types) {
        match self.kind() {
            // For covariant checks, the supertype is the expected type
            SubtypeCheck::Covariant => (b, bt, a, at),
            // For contravariant checks, the subtype is the expected type
            SubtypeCheck::Contravariant => (a, at, b, bt),
        }
    }
pub(crate) fn core_extern(
        &self,
        a: &CoreExtern,
        at: &Types,
        b: &CoreExtern,
        bt: &Types,
    ) -> (r: Result<()>)
        ensures r is Ok <==> core_extern_sub(*a, *b)
    {
        macro_rules! limits_match {
            ($ai:expr, $am:expr, $bi:expr, $bm:expr) => {{
                $ai >= $bi
                    && match ($am, $bm) {
                        (Some(am), Some(bm)) => am <= bm,
                        (None, Some(_)) => false,
                        _ => true,
                    }
            }};
        }

        match (a, b) {
            (CoreExtern::Func(a), CoreExtern::Func(b)) => self.core_func(a, at, b, bt),
            (
                CoreExtern::Table {
                    element_type: ae,
                    initial: ai,
                    maximum: am,
                    table64: a64,
                    shared: ashared,
                },
                CoreExtern::Table {
                    element_type: be,
                    initial: bi,
                    maximum: bm,
                    table64: b64,
                    shared: bshared,
                },
            ) => {
                if ae != be {
                    let (expected, _, found, _) = self.expected_found(ae, at, be, bt);
                    bail!("expected table element type {expected}, found {found}");
                }

                if !limits_match!(ai, am, bi, bm) {
                    bail!("mismatched table limits");
                }

                if a64 != b64 {
                    bail!("mismatched table64 flag for tables");
                }

                if ashared != bshared {
                    bail!("mismatched shared flag for tables");
                }

                Ok(())
            }
            (
                CoreExtern::Memory {
                    memory64: a64,
                    shared: ashared,
                    initial: ai,
                    maximum: am,
                    page_size_log2: apsl,
                },
                CoreExtern::Memory {
                    memory64: b64,
                    shared: bshared,
                    initial: bi,
                    maximum: bm,
                    page_size_log2: bpsl,
                },
            ) => {
                if ashared != bshared {
                    bail!("mismatched shared flag for memories");
                }

                if a64 != b64 {
                    bail!("mismatched memory64 flag for memories");
                }

                if !limits_match!(ai, am, bi, bm) {
                    bail!("mismatched memory limits");
                }

                if apsl != bpsl {
                    bail!("mismatched page_size_log2 for memories");
                }

                Ok(())
            }
            (
                CoreExtern::Global {
                    val_type: avt,
                    mutable: am,
                    shared: ashared,
                },
                CoreExtern::Global {
                    val_type: bvt,
                    mutable: bm,
                    shared: bshared,
                },
            ) => {
                if am != bm {
                    bail!("mismatched mutable flag for globals");
                }

                if avt != bvt {
                    let (expected, _, found, _) = self.expected_found(avt, at, bvt, bt);
                    bail!("expected global type {expected}, found {found}");
                }

                if ashared != bshared {
                    bail!("mismatched shared flag for globals");
                }

                Ok(())
            }
            (CoreExtern::Tag(a), CoreExtern::Tag(b)) => self.core_func(a, at, b, bt),

            (CoreExtern::Func(_), _)
            | (CoreExtern::Table { .. }, _)
            | (CoreExtern::Memory { .. }, _)
            | (CoreExtern::Global { .. }, _)
            | (CoreExtern::Tag(_), _) => {
                let (expected, _, found, _) = self.expected_found(a, at, b, bt);
                bail!("expected {expected}, found {found}");
            }
        }
    }
fn core_func(&self, a: &CoreFuncType, at: &Types, b: &CoreFuncType, bt: &Types) -> (r: Result<()>)
 ensures r is Ok <==> cft_eq(*a, *b)
{
        if a != b {
            let (expected, _, found, _) = self.expected_found(a, at, b, bt);
            bail!("expected {expected}, found {found}");
        }

        Ok(())
    }
}

}
fn main() {}
