use vstd::prelude::*;
verus! {
pub struct PV<T>(T);
pub enum St { A(u32), B(Vec<St>) }
impl<T> PV<T> where T: FnMut(u32) -> bool {
    pub fn new(cb: T) -> Self { Self(cb) }
    #[verifier::exec_allows_no_decreases_clause]
    fn visit(&mut self, s: &St) -> bool {
        match s {
            St::A(x) => (self.0)(*x),
            St::B(v) => { for c in v.iter() { if !self.visit(c) { return false; } } true }
        }
    }
}
fn user(s: &St) -> Vec<u32> {
    let mut keys: Vec<u32> = Vec::new();
    let mut v = PV::new(|x: u32| { keys.push(x); true });
    v.visit(s);
    keys
}
}
fn main() {}
