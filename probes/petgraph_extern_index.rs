use vstd::prelude::*;
use petgraph::{graph::NodeIndex, stable_graph::StableDiGraph, Direction, visit::EdgeRef};
use indexmap::IndexMap;
use std::collections::HashMap;
verus! {

#[verifier::external_type_specification]
#[verifier::external_body]
#[verifier::reject_recursive_types(N)]
#[verifier::reject_recursive_types(E)]
#[verifier::reject_recursive_types(Ty)]
#[verifier::reject_recursive_types(Ix)]
pub struct ExStableGraph<N, E, Ty, Ix>(petgraph::stable_graph::StableGraph<N, E, Ty, Ix>);

#[verifier::external_type_specification]
#[verifier::external_body]
#[verifier::reject_recursive_types(Ix)]
pub struct ExNodeIndex<Ix>(NodeIndex<Ix>);

#[verifier::external_type_specification]
#[verifier::external_body]
pub struct ExDirected(petgraph::Directed);

pub enum NodeKind { Definition, Import(String), Alias }
pub struct Node { kind: NodeKind, export: Option<String> }
pub enum Edge { Alias(usize), Argument(usize), Dependency }

pub uninterp spec fn g_nodes<N,E,Ty,Ix>(g: &petgraph::stable_graph::StableGraph<N,E,Ty,Ix>) -> Map<NodeIndex<Ix>, N>;

pub assume_specification<N, E, Ty: petgraph::EdgeType, Ix: petgraph::graph::IndexType>[<petgraph::stable_graph::StableGraph<N, E, Ty, Ix> as core::ops::Index<NodeIndex<Ix>>>::index](g: &petgraph::stable_graph::StableGraph<N,E,Ty,Ix>, i: NodeIndex<Ix>) -> (r: &N)
    requires g_nodes(g).dom().contains(i),
    ensures *r == g_nodes(g)[i];

pub struct CG { graph: StableDiGraph<Node, Edge>, exports: HashMap<String, NodeIndex> }

impl CG {
    fn is_def(&self, n: NodeIndex) -> (r: bool)
        requires g_nodes(&self.graph).dom().contains(n)
    {
        let node = &self.graph[n];
        matches!(node.kind, NodeKind::Definition)
    }
}

}
fn main() {}
