use vstd::prelude::*;
verus! {
fn a(x: u32) -> u32 { if x > 3 { panic!("boom {x}") } x }
fn b(x: u32) -> u32 { assert!(x < 4); x }
fn c(x: Option<u32>) -> u32 { x.expect("no") }
fn d(x: u32) -> u32 { match x { 0 => 1, _ => unreachable!("never") } }
fn e(x: Option<u32>) -> u32 { x.unwrap() }
}
fn main() {}
