use vstd::prelude::*;
verus! {

pub struct Error;
pub type Result<T> = core::result::Result<T, Error>;
macro_rules! bail { ($($t:tt)*) => { return Err(Error) } }
macro_rules! format { ($($t:tt)*) => { String::new() } }

pub trait Context<T> { fn with_context<C, F: FnOnce() -> C>(self, f: F) -> Result<T>; fn context<C>(self, c: C) -> Result<T>; }
impl<T> Context<T> for Result<T> {
    #[verifier::external_body]
    fn with_context<C, F: FnOnce() -> C>(self, f: F) -> (r: Result<T>)
        ensures r is Ok <==> self is Ok, r is Ok ==> r->Ok_0 == self->Ok_0
    { unimplemented!() }
    #[verifier::external_body]
    fn context<C>(self, c: C) -> (r: Result<T>)
        ensures r is Ok <==> self is Ok, r is Ok ==> r->Ok_0 == self->Ok_0
    { unimplemented!() }
}

pub enum NodeKind { Definition, Import(String), Instantiation(Vec<usize>), Alias }
pub struct Node { kind: NodeKind, export: Option<String> }

impl Node {
    fn add(&mut self, index: usize) {
        match &mut self.kind {
            NodeKind::Instantiation(satisfied) => { satisfied.push(index); }
            _ => { }
        }
    }
    fn kind_mut(&mut self) -> &mut NodeKind { &mut self.kind }
}

fn chk(a: u32) -> Result<()> { if a > 3 { bail!("x {a}") } Ok(()) }

fn user(a: u32, n: &String) -> Result<u32> {
    chk(a).with_context(|| format!("mismatched type for export `{n}`"))?;
    chk(a).context("mismatched")?;
    let r: core::result::Result<u32, u8> = Err(3u8);
    let q = r.map_err(|e| Error)?;
    Ok(q)
}

}
fn main() {}
