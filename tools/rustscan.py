"""Minimal Rust source scanner used by wacx: code mask (comments / strings / chars
removed), balanced-delimiter matching, and an item scanner that finds fn / struct /
enum / impl / mod / trait / type / const / macro_rules items by name together with
their byte spans.  It never rewrites code; it only reports spans."""
import re

IDENT = re.compile(r'[A-Za-z_][A-Za-z0-9_]*')


def code_mask(src):
    """mask[i] == 1 iff src[i] is code (not inside a comment, string or char literal)."""
    n = len(src)
    mask = bytearray(b'\x01') * n
    i = 0
    while i < n:
        c = src[i]
        if c == '/' and i + 1 < n and src[i + 1] == '/':
            j = src.find('\n', i)
            if j < 0:
                j = n
            for k in range(i, j):
                mask[k] = 0
            i = j
        elif c == '/' and i + 1 < n and src[i + 1] == '*':
            depth = 1
            j = i + 2
            while j < n and depth > 0:
                if src.startswith('/*', j):
                    depth += 1
                    j += 2
                elif src.startswith('*/', j):
                    depth -= 1
                    j += 2
                else:
                    j += 1
            for k in range(i, j):
                mask[k] = 0
            i = j
        elif c == '"' or (c in 'rbc' and _is_str_start(src, i)):
            j = _skip_string(src, i)
            for k in range(i, j):
                mask[k] = 0
            i = j
        elif c == "'":
            # char literal or lifetime
            if i + 1 < n and src[i + 1] == '\\':
                j = src.find("'", i + 2)
                # handle '\''
                if j == i + 2:
                    j = src.find("'", i + 3)
                j = j + 1 if j >= 0 else n
                for k in range(i, j):
                    mask[k] = 0
                i = j
            elif i + 2 < n and src[i + 2] == "'":
                for k in range(i, i + 3):
                    mask[k] = 0
                i += 3
            else:
                i += 1  # lifetime
        else:
            i += 1
    return mask


def _is_str_start(src, i):
    # r"..", r#".."#, b"..", br".., b'x', c".."
    if i > 0 and (src[i - 1].isalnum() or src[i - 1] == '_'):
        return False
    m = re.compile(r'(br|rb|b|c|cr|r)(#*)"').match(src, i)
    if m:
        if '#' in m.group(2) and 'r' not in m.group(1):
            return False
        return True
    if src.startswith("b'", i):
        return True
    return False


def _skip_string(src, i):
    n = len(src)
    if src.startswith("b'", i):
        j = i + 2
        if j < n and src[j] == '\\':
            j += 2
        else:
            j += 1
        k = src.find("'", j)
        return k + 1 if k >= 0 else n
    m = re.compile(r'(br|rb|b|c|cr|r)?(#*)"').match(src, i)
    prefix, hashes = m.group(1) or '', m.group(2)
    j = m.end()
    if 'r' in prefix:
        close = '"' + hashes
        k = src.find(close, j)
        return k + len(close) if k >= 0 else n
    while j < n:
        if src[j] == '\\':
            j += 2
        elif src[j] == '"':
            return j + 1
        else:
            j += 1
    return n


OPEN = {'(': ')', '[': ']', '{': '}'}
CLOSE = {')': '(', ']': '[', '}': '{'}


def match_delim(src, mask, i):
    """src[i] is an opening delimiter in code; return index of the matching close."""
    stack = []
    n = len(src)
    j = i
    while j < n:
        if mask[j]:
            c = src[j]
            if c in OPEN:
                stack.append(c)
            elif c in CLOSE:
                if not stack or stack[-1] != CLOSE[c]:
                    raise ValueError('unbalanced delimiter at %d' % j)
                stack.pop()
                if not stack:
                    return j
        j += 1
    raise ValueError('unterminated delimiter at %d' % i)


def find_at_depth0(src, mask, i, hi, chars, track='([{'):
    """first index j in [i,hi) of a code char in `chars` at delimiter depth 0
    (depth counted over the delimiters in `track`)."""
    depth = 0
    j = i
    closers = ''.join(OPEN[c] for c in track)
    while j < hi:
        if mask[j]:
            c = src[j]
            if depth == 0 and c in chars:
                return j
            if c in track:
                depth += 1
            elif c in closers:
                depth -= 1
                if depth < 0:
                    return -1
        j += 1
    return -1


def skip_ws(src, mask, i, hi):
    while i < hi and (not mask[i] or src[i].isspace()):
        i += 1
    return i


class Item:
    def __init__(self, kind, name, start, decl, end, body_open=None, header=None):
        self.kind = kind          # fn struct enum union trait mod impl type const static use macro_rules macro
        self.name = name
        self.start = start        # first attribute (or decl)
        self.decl = decl          # after attributes
        self.end = end            # one past last char
        self.body_open = body_open  # index of '{' for fn/impl/mod/trait/struct/enum
        self.header = header
        self.children = []
        self.attrs = []           # list of (start,end) spans of attributes
        self.self_ty = None
        self.trait = None

    def __repr__(self):
        return 'Item(%s %s %d..%d)' % (self.kind, self.name, self.start, self.end)


_QUALS = ('pub', 'unsafe', 'async', 'const', 'extern', 'default')
_KW = ('fn', 'struct', 'enum', 'union', 'trait', 'mod', 'impl', 'type', 'const', 'static', 'use', 'macro_rules')


def _word_at(src, i):
    m = IDENT.match(src, i)
    return m.group(0) if m else None


def scan_items(src, mask, lo, hi):
    items = []
    pos = lo
    while True:
        pos = skip_ws(src, mask, pos, hi)
        if pos >= hi:
            break
        start = pos
        attrs = []
        while pos < hi and src[pos] == '#':
            j = pos + 1
            if j < hi and src[j] == '!':
                j += 1
            j = skip_ws(src, mask, j, hi)
            if src[j] != '[':
                raise ValueError('bad attribute at %d' % pos)
            e = match_delim(src, mask, j)
            attrs.append((pos, e + 1))
            pos = skip_ws(src, mask, e + 1, hi)
        decl = pos
        # qualifiers
        while True:
            w = _word_at(src, pos)
            if w == 'pub':
                pos = skip_ws(src, mask, pos + 3, hi)
                if pos < hi and src[pos] == '(':
                    pos = skip_ws(src, mask, match_delim(src, mask, pos) + 1, hi)
            elif w in ('unsafe', 'async', 'default'):
                pos = skip_ws(src, mask, pos + len(w), hi)
            elif w == 'extern':
                p2 = skip_ws(src, mask, pos + 6, hi)
                # extern "C" fn ... : the string is masked out, skip over non-code
                while p2 < hi and not mask[p2]:
                    p2 += 1
                p2 = skip_ws(src, mask, p2, hi)
                if _word_at(src, p2) == 'crate':
                    break
                pos = p2
            elif w == 'const':
                p2 = skip_ws(src, mask, pos + 5, hi)
                if _word_at(src, p2) in ('fn', 'unsafe', 'async', 'extern'):
                    pos = p2
                else:
                    break
            else:
                break
        w = _word_at(src, pos)
        if w is None:
            if pos < hi and src[pos] == ';':
                pos += 1
                continue
            raise ValueError('cannot parse item at offset %d: %r' % (pos, src[pos:pos + 40]))
        if w == 'fn':
            p = skip_ws(src, mask, pos + 2, hi)
            name = _word_at(src, p)
            j = find_at_depth0(src, mask, p, hi, '{;', track='([')
            if src[j] == ';':
                it = Item('fn', name, start, decl, j + 1)
            else:
                e = match_delim(src, mask, j)
                it = Item('fn', name, start, decl, e + 1, body_open=j)
        elif w in ('struct', 'enum', 'union', 'trait', 'mod', 'impl'):
            p = skip_ws(src, mask, pos + len(w), hi)
            j = find_at_depth0(src, mask, p, hi, '{;', track='([')
            name = _word_at(src, p) if w != 'impl' else None
            if src[j] == ';':
                it = Item(w, name, start, decl, j + 1)
            else:
                e = match_delim(src, mask, j)
                end = e + 1
                it = Item(w, name, start, decl, end, body_open=j, header=src[decl:j])
                if w == 'impl':
                    _parse_impl_header(it, src[pos + 4:j])
                    it.name = it.self_ty if it.trait is None else '<%s as %s>' % (it.self_ty, it.trait)
                if w in ('impl', 'mod', 'trait'):
                    it.children = scan_items(src, mask, j + 1, e)
                    for ch in it.children:
                        ch.parent = it
        elif w in ('type', 'const', 'static', 'use', 'extern'):
            p = skip_ws(src, mask, pos + len(w), hi)
            name = _word_at(src, p)
            if w == 'const' and name == 'mut':
                p = skip_ws(src, mask, p + 3, hi)
                name = _word_at(src, p)
            j = find_at_depth0(src, mask, p, hi, ';')
            it = Item(w, name, start, decl, j + 1)
        else:
            # macro invocation item: ident ! [name] delim
            p = pos + len(w)
            # paths like foo::bar!
            while src.startswith('::', p):
                p += 2
                w2 = _word_at(src, p)
                p += len(w2)
            p = skip_ws(src, mask, p, hi)
            if p >= hi or src[p] != '!':
                raise ValueError('cannot parse item at offset %d: %r' % (pos, src[pos:pos + 40]))
            p = skip_ws(src, mask, p + 1, hi)
            name = None
            if w == 'macro_rules':
                name = _word_at(src, p)
                p = skip_ws(src, mask, p + len(name), hi)
            e = match_delim(src, mask, p)
            end = e + 1
            if src[p] != '{':
                q = skip_ws(src, mask, end, hi)
                if q < hi and src[q] == ';':
                    end = q + 1
            it = Item('macro_rules' if w == 'macro_rules' else 'macro', name, start, decl, end)
        it.attrs = attrs
        if not hasattr(it, 'parent'):
            it.parent = None
        items.append(it)
        pos = it.end
    return items


def _strip_generics(s):
    """remove a leading <...> group"""
    s = s.strip()
    if not s.startswith('<'):
        return s
    depth = 0
    for i, c in enumerate(s):
        if c == '<':
            depth += 1
        elif c == '>' and (i == 0 or s[i - 1] != '-'):
            depth -= 1
            if depth == 0:
                return s[i + 1:].strip()
    return s


def _norm(s):
    return re.sub(r'\s+', '', s)


def _parse_impl_header(it, rest):
    rest = _strip_generics(rest)
    # cut where clause
    m = re.search(r'\bwhere\b', rest)
    if m:
        rest = rest[:m.start()]
    # split on ' for ' at angle depth 0
    depth = 0
    split = None
    for m in re.finditer(r'<|>|\bfor\b', rest):
        t = m.group(0)
        if t == '<':
            depth += 1
        elif t == '>':
            if m.start() > 0 and rest[m.start() - 1] == '-':
                continue
            depth -= 1
        elif depth == 0:
            # HRTB `for<'a>` is followed by '<'
            if rest[m.end():].lstrip().startswith('<'):
                continue
            split = m
            break
    if split:
        trait = rest[:split.start()].strip()
        ty = rest[split.end():].strip()
    else:
        trait, ty = None, rest.strip()
    it.trait = _norm(trait) if trait else None
    it.self_ty_full = _norm(ty)
    # bare name of the self type
    t = ty.lstrip('&').strip()
    t = re.sub(r"^'\w+\s+", '', t)
    t = re.sub(r'^mut\s+', '', t)
    name = re.split(r'[<\s]', t, 1)[0]
    it.self_ty = name.split('::')[-1]


def index_items(items, prefix=''):
    """flatten to {path: [Item,...]}"""
    out = {}

    def add(path, it):
        out.setdefault(path, []).append(it)

    def walk(lst, pre):
        for it in lst:
            if it.kind == 'impl':
                add(pre + 'impl ' + it.name, it)
                for ch in it.children:
                    if ch.name:
                        add(pre + it.name + '::' + ch.name, ch)
                        if it.trait is not None:
                            # also reachable as Type::name (may be ambiguous)
                            add(pre + it.self_ty + '::' + ch.name, ch)
            elif it.kind == 'mod':
                add(pre + it.name, it)
                walk(it.children, pre + it.name + '::')
            elif it.kind == 'trait':
                add(pre + it.name, it)
                for ch in it.children:
                    if ch.name:
                        add(pre + it.name + '::' + ch.name, ch)
            elif it.name:
                add(pre + it.name, it)
    walk(items, prefix)
    return out


LOOP_KW = re.compile(r'\b(for|while|loop)\b')


def find_loops(src, mask, lo, hi):
    """loops in [lo,hi) in source order: list of (kw_index, keyword, body_open_index)."""
    loops = []
    for m in LOOP_KW.finditer(src, lo, hi):
        i = m.start()
        if not mask[i]:
            continue
        if i > 0 and (src[i - 1] == '.' or src[i - 1] == '_' or src[i - 1].isalnum()):
            continue
        kw = m.group(1)
        j = skip_ws(src, mask, m.end(), hi)
        if kw == 'for' and j < hi and src[j] == '<':
            continue  # for<'a>
        if kw == 'loop':
            if j >= hi or src[j] != '{':
                continue
            loops.append((i, kw, j))
            continue
        b = find_at_depth0(src, mask, m.end(), hi, '{', track='([')
        if b < 0:
            continue
        loops.append((i, kw, b))
    return loops


def line_of(src, idx):
    return src.count('\n', 0, idx) + 1
