#!/usr/bin/env python3
"""wacx - mechanical extractor: builds gen/<unit>.rs from /repo's current working tree.

Reads units/<unit>/unit.vrs.  Lines not starting with `//@` are copied verbatim (prelude,
assumed contracts, spec functions, lemmas).  Directives:

  //@ take <file> <item-path> [external_body] [body=unimplemented] [strip_attrs]
        copy the item text verbatim from /repo/<file> (impl methods are wrapped in the
        source's own `impl ... {` header)
  //@ fn <file> <item-path> [canary=no] [external_body]
  //@   ret <name>                       name the return value:  -> (name: T)
  //@   attr <attribute text>            extra attribute before the fn
  //@   spec                             following lines spliced between signature and body
  //@   loop <n> [binder=<id>] [match=<regex>]   following lines spliced after the n-th loop header
  //@   head                             following lines spliced at the top of the body
  //@   insert[_opt] before|after|after_block <literal>    following lines spliced before/after the first body line
  //@                                          containing the literal (after_block: after the block opened on that line)
  //@                                    containing the literal (lost literal => LostAnchor)
  //@ end

The executable text of every extracted item is the repo text except for the drops listed in
DESIGN.md section 3 (log::* statements removed, doc comments, proc-macro attributes).
"""
import json
import os
import re
import sys

sys.path.insert(0, os.path.dirname(os.path.abspath(__file__)))
import rustscan as R

REPO = os.environ.get('WAC_REPO', '/repo')
UNITS_DIR = os.path.join(os.path.dirname(os.path.dirname(os.path.abspath(__file__))), 'units')


class LostAnchor(Exception):
    pass


class SourceFile:
    cache = {}

    def __init__(self, rel):
        self.rel = rel
        path = os.path.join(REPO, rel)
        if not os.path.exists(path):
            raise LostAnchor('source file %s no longer exists' % rel)
        self.src = open(path, encoding='utf-8').read()
        self.mask = R.code_mask(self.src)
        try:
            self.items = R.scan_items(self.src, self.mask, 0, len(self.src))
        except Exception as e:  # unparsable source => undecided, never an alarm
            raise LostAnchor('cannot scan %s: %s' % (rel, e))
        self.index = R.index_items(self.items)

    @classmethod
    def get(cls, rel):
        if rel not in cls.cache:
            cls.cache[rel] = SourceFile(rel)
        return cls.cache[rel]

    def find(self, path):
        key = path
        m = re.match(r'^(impl\s+)?<\s*(.*?)\s+as\s+(.*)>(::\w+)?$', path)
        if m:
            key = ('impl ' if m.group(1) else '') + '<%s as %s>' % (re.sub(r'\s+', '', m.group(2)).split('::')[-1].split('<')[0],
                                                                 re.sub(r'\s+', '', m.group(3))) + (m.group(4) or '')
        elif path.startswith('impl'):
            key = 'impl ' + path[4:].strip()
        cands = self.index.get(key)
        if not cands:
            raise LostAnchor('item `%s` not found in %s' % (path, self.rel))
        # non-test preference: drop items inside `mod tests`
        if len(cands) > 1:
            raise LostAnchor('item `%s` is ambiguous in %s (%d candidates)' % (path, self.rel, len(cands)))
        return cands[0]


DROP_ATTR = re.compile(r'#\s*\[\s*(error|label|source|diagnostic|help|serde|clap|logos|token|regex|related|doc|inline|must_use|allow|from|cfg_attr)\b')
KEEP_DERIVES = {'Debug', 'Clone', 'Copy', 'PartialEq', 'Eq', 'Hash', 'PartialOrd', 'Ord', 'Default'}
MODPATH = re.compile(r'(super::|crate::)+')
LOG_STMT = re.compile(r'\blog::(debug|trace|info|warn|error)\s*!')


def blank(text):
    """replace by whitespace, keeping newlines (line numbers stay aligned)"""
    return ''.join(c if c == '\n' else ' ' for c in text)


def filter_attrs(sf, lo, hi, drops, strip=()):
    """return text of sf.src[lo:hi] with proc-macro attributes blanked (anywhere inside the
    item: on the item, on fields, on variants) and derive lists filtered."""
    src, mask = sf.src, sf.mask
    out = []
    i = lo
    while i < hi:
        if mask[i] and src[i] == '#':
            j = R.skip_ws(src, mask, i + 1, hi)
            if j < hi and src[j] == '[':
                e = R.match_delim(src, mask, j) + 1
                text = src[i:e]
                if DROP_ATTR.match(text):
                    out.append(blank(text))
                    drops['D4 attribute stripped'] = drops.get('D4 attribute stripped', 0) + 1
                    i = e
                    continue
                m = re.match(r'#\s*\[\s*derive\s*\((.*)\)\s*\]$', text, re.S)
                if m:
                    names = [x.strip() for x in m.group(1).split(',') if x.strip()]
                    has_copy = any(x.split('::')[-1] == 'Copy' for x in names)
                    keep = [x for x in names if x.split('::')[-1] in KEEP_DERIVES
                            and (x.split('::')[-1] not in strip or (has_copy and x.split('::')[-1] == 'Clone'))]
                    if len(keep) != len(names):
                        drops['D4 derive filtered'] = drops.get('D4 derive filtered', 0) + 1
                    new = '#[derive(%s)]' % ', '.join(keep) if keep else ''
                    new += '\n' * text.count('\n')
                    out.append(new)
                    i = e
                    continue
                out.append(text)
                i = e
                continue
        if mask[i] and (i == 0 or not (src[i - 1].isalnum() or src[i - 1] == '_')):
            m = MODPATH.match(src, i)
            if m:
                drops['D8 module path prefix flattened'] = drops.get('D8 module path prefix flattened', 0) + 1
                out.append(' ' * (m.end() - i))
                i = m.end()
                continue
        if not mask[i] and src.startswith('///', i):
            e = src.find('\n', i)
            e = hi if e < 0 else min(e, hi)
            out.append(' ' * (e - i))
            i = e
            continue
        out.append(src[i])
        i += 1
    return ''.join(out)


def apply_drops(sf, lo, hi, drops):
    """executable text of sf.src[lo:hi] with log::*! statements blanked (D2) and doc comments blanked (D6).
    Returns a list of (offset_in_original, replacement_text) edits as a dict start->(end,text)."""
    edits = {}
    src, mask = sf.src, sf.mask
    for m in LOG_STMT.finditer(src, lo, hi):
        if not mask[m.start()]:
            continue
        p = R.skip_ws(src, mask, m.end(), hi)
        e = R.match_delim(src, mask, p) + 1
        q = R.skip_ws(src, mask, e, hi)
        if q < hi and src[q] == ';':
            e = q + 1
        edits[m.start()] = (e, blank(src[m.start():e]))
        drops['D2 log statement removed'] = drops.get('D2 log statement removed', 0) + 1
    for m in MODPATH.finditer(src, lo, hi):
        i = m.start()
        if not mask[i] or (i > 0 and (src[i - 1].isalnum() or src[i - 1] == '_')):
            continue
        if any(a <= i < b for a, (b, _) in edits.items()):
            continue
        edits[i] = (m.end(), ' ' * (m.end() - i))
        drops['D8 module path prefix flattened'] = drops.get('D8 module path prefix flattened', 0) + 1
    return edits


class Emitter:
    def __init__(self):
        self.lines = []     # text lines
        self.origin = []    # per line: [file, line] or ['unit', line]
        self.funcs = []     # dicts: name, path, file, start, end, canary

    def emit(self, text, file, first_line):
        if text.endswith('\n'):
            text = text[:-1]
        for k, ln in enumerate(text.split('\n')):
            self.lines.append(ln)
            self.origin.append([file, first_line + k])

    def emit_fixed(self, text, file, line):
        if text.endswith('\n'):
            text = text[:-1]
        for ln in text.split('\n'):
            self.lines.append(ln)
            self.origin.append([file, line])

    @property
    def lineno(self):
        return len(self.lines) + 1


def split_clauses(text):
    """count top-level comma separated clauses of a requires/ensures/invariant block (approximate)."""
    depth = 0
    n = 0
    cur = False
    for c in text:
        if c in '([{':
            depth += 1
        elif c in ')]}':
            depth -= 1
        elif c == ',' and depth == 0:
            if cur:
                n += 1
            cur = False
            continue
        if not c.isspace():
            cur = True
    if cur:
        n += 1
    return n


SPEC_KW = re.compile(r'\b(requires|ensures|invariant_except_break|invariant|decreases|recommends|returns|no_unwind|opens_invariants)\b')


def spec_sections(text):
    """[(keyword, body_text)] of a spec block"""
    # strip comments
    t = re.sub(r'//[^\n]*', '', text)
    parts = []
    ms = list(SPEC_KW.finditer(t))
    for k, m in enumerate(ms):
        end = ms[k + 1].start() if k + 1 < len(ms) else len(t)
        parts.append((m.group(1), t[m.end():end]))
    return parts


def canary_spec(spec):
    m = re.search(r'\bensures\b', spec)
    if m:
        return spec[:m.end()] + ' false,' + spec[m.end():]
    m = re.search(r'\bdecreases\b', spec)
    if m:
        return spec[:m.start()] + ' ensures false,\n' + spec[m.start():]
    return spec.rstrip() + '\n    ensures false,\n'


class FnDirective:
    def __init__(self, file, path, opts, line):
        self.file, self.path, self.opts, self.line = file, path, opts, line
        self.ret = None
        self.attrs = []
        self.spec = ('', line)
        self.loops = {}    # n -> dict(text, line, binder, match)
        self.head = ('', line)
        self.inserts = []  # (where, literal, text, line)
        self.closures = []  # (literal, ret, text, line)
        self.nested = {}    # name -> FnDirective (contract of a fn nested in the body)
        self.parent_dir = None


def parse_unit(path):
    nodes = []  # ('raw', text, line) | ('take', file, path, opts, line) | ('fn', FnDirective)
    cur_fn = None
    section = None  # inside fn: ('spec',) / ('loop', n) / ('head',) / ('insert', idx)
    buf = []
    buf_line = 1

    def flush():
        nonlocal buf
        text = '\n'.join(buf)
        if cur_fn is None:
            if text.strip():
                nodes.append(('raw', text, buf_line))
        elif section is not None:
            if section[0] == 'spec':
                cur_fn.spec = (text, buf_line)
            elif section[0] == 'head':
                cur_fn.head = (text, buf_line)
            elif section[0] == 'loop':
                cur_fn.loops[section[1]]['text'] = text
                cur_fn.loops[section[1]]['line'] = buf_line
            elif section[0] == 'insert':
                w, lit, _, ln = cur_fn.inserts[section[1]]
                cur_fn.inserts[section[1]] = (w, lit, text, buf_line)
            elif section[0] == 'closure':
                lit, ret, _, ln = cur_fn.closures[section[1]]
                cur_fn.closures[section[1]] = (lit, ret, text, buf_line)
        buf = []

    for ln_no, line in enumerate(open(path, encoding='utf-8').read().split('\n'), 1):
        s = line.strip()
        if s.startswith('//@'):
            d = s[3:].strip()
            flush()
            buf_line = ln_no + 1
            words = d.split()
            if not words:
                continue
            cmd = words[0]
            if cmd in ('take', 'fn') and len(words) > 2 and (words[2].startswith('<') or words[2] == 'impl'):
                # item paths such as `<T as Trait>::name` or `impl <T as Trait>` contain spaces
                k = 2
                while '>' not in words[k] and k + 1 < len(words):
                    k += 1
                # keep joining while the next word continues the path (e.g. generic args)
                words = words[:2] + [' '.join(words[2:k + 1])] + words[k + 1:]
            if cmd == 'take':
                opts = words[3:]
                nodes.append(('take', words[1], words[2], opts, ln_no))
            elif cmd == 'take_types':
                # //@ take_types <file> [except=A,B,C]: every top-level struct/enum/type alias of the file, verbatim
                exc = set()
                topts = []
                for w in words[2:]:
                    if w.startswith('except='):
                        exc = set(w[7:].split(','))
                    else:
                        topts.append(w)
                nodes.append(('take_types', words[1], exc, ln_no, topts))
            elif cmd == 'fn':
                cur_fn = FnDirective(words[1], words[2], words[3:], ln_no)
                section = None
            elif cmd == 'nested':
                sub = FnDirective(cur_fn.file, words[1], [], ln_no)
                sub.parent_dir = cur_fn
                cur_fn.nested[words[1]] = sub
                cur_fn = sub
                section = None
            elif cmd == 'endnested':
                cur_fn = cur_fn.parent_dir
                section = None
            elif cmd == 'end':
                nodes.append(('fn', cur_fn))
                cur_fn = None
                section = None
            elif cmd == 'ret':
                cur_fn.ret = words[1]
                section = None
            elif cmd == 'attr':
                cur_fn.attrs.append(d[4:].strip())
                section = None
            elif cmd == 'spec':
                section = ('spec',)
            elif cmd == 'head':
                section = ('head',)
            elif cmd == 'loop':
                n = int(words[1])
                info = {'text': '', 'line': ln_no, 'binder': None, 'match': None, 'optional': 'optional' in words[2:]}
                rest = d.split(None, 2)[2] if len(words) > 2 else ''
                mb = re.search(r'binder=(\w+)', rest)
                if mb:
                    info['binder'] = mb.group(1)
                mm = re.search(r'match=(.*)$', rest)
                if mm:
                    info['match'] = mm.group(1).strip()
                cur_fn.loops[n] = info
                section = ('loop', n)
            elif cmd == 'closure':
                # //@ closure ret=<name:Type> at <literal start of the closure>
                m = re.match(r'closure\s+ret=(\S+)\s+(?:nth=(\d+)\s+)?(?:optional\s+)?at\s+(.*)$', d)
                copt = bool(re.match(r'closure\s+ret=\S+\s+(?:nth=\d+\s+)?optional\s+at', d))
                if not m:
                    raise SystemExit('%s:%d: bad closure directive' % (path, ln_no))
                cur_fn.closures.append((m.group(3).strip() + ('\x00%s' % m.group(2) if m.group(2) else '') + ('\x01' if copt else ''), m.group(1), '', ln_no))
                section = ('closure', len(cur_fn.closures) - 1)
            elif cmd in ('insert', 'insert_opt'):
                where = words[1] + ('?' if cmd == 'insert_opt' else '')
                lit = d.split(None, 2)[2]
                cur_fn.inserts.append((where, lit, '', ln_no))
                section = ('insert', len(cur_fn.inserts) - 1)
            elif cmd == 'include':
                inc = os.path.join(UNITS_DIR, words[1])
                for nd in parse_unit(inc):
                    if nd[0] == 'raw':
                        nd = ('raw_fixed', nd[1], ln_no)
                    nodes.append(nd)
            elif cmd == 'expect':
                nodes.append(('expect', words[1], d.split(None, 2)[2], ln_no))
            elif cmd in ('unit', 'note'):
                pass
            else:
                raise SystemExit('%s:%d: unknown directive %s' % (path, ln_no, cmd))
        else:
            buf.append(line)
    flush()
    return nodes


def impl_wrap_open(sf, item):
    p = item.parent
    if p is not None and p.kind == 'impl':
        return sf.src[p.decl:p.body_open].strip() + ' {'
    if p is not None and p.kind == 'mod':
        return None
    return None


def emit_take(em, sf, item, opts, drops, unit_line):
    src = sf.src
    wrap = impl_wrap_open(sf, item) if item.kind in ('fn', 'type', 'const') else None
    if wrap:
        em.emit_fixed(wrap, sf.rel, R.line_of(src, item.parent.decl))
    start_line = R.line_of(src, item.start)
    if item.kind == 'fn':
        text = render_fn(sf, item, None, drops, em, canary=False, take_opts=opts)
    else:
        strip = ()
        for o in opts:
            if o.startswith('strip='):
                strip = tuple(o[6:].split(','))
        text = filter_attrs(sf, item.start, item.end, drops, strip)
        em.emit(text, sf.rel, start_line)
    if wrap:
        em.emit_fixed('}', 'unit', unit_line)


def fn_attr_text(sf, item):
    keep = []
    for (a, b) in item.attrs:
        t = sf.src[a:b]
        if re.match(r'#\s*\[\s*cfg\b', t):
            keep.append(t)
    return keep


def render_fn(sf, item, d, drops, em, canary, take_opts=()):
    """emit one fn (already inside its impl wrapper).  d is the FnDirective or None."""
    src, mask = sf.src, sf.mask
    if item.body_open is None:
        raise LostAnchor('fn %s has no body' % item.name)
    sig_start = item.decl
    body_open = item.body_open
    body_close = item.end - 1
    gen_start = em.lineno
    for t in fn_attr_text(sf, item):
        em.emit_fixed(t, sf.rel, R.line_of(src, item.start))
    opts = list(take_opts) + (d.opts if d else [])
    if d:
        for a in d.attrs:
            em.emit_fixed(a, 'unit', d.line)
    if 'external_body' in opts:
        em.emit_fixed('#[verifier::external_body]', 'unit', d.line if d else 0)
    elif 'body=unimplemented' not in opts and 'isolate' not in opts and not any('loop_isolation' in a for a in (d.attrs if d else [])):
        # loops see the facts established before them about variables they do not modify: hoisting an expression into a
        # `let` in front of a loop (a behaviour-preserving edit) must not lose the stored proof
        em.emit_fixed('#[verifier::loop_isolation(false)]', 'unit', d.line if d else 0)
    sig = src[sig_start:body_open]
    # name the return value
    ret = d.ret if d else None
    if ret:
        sig = name_return(sig, ret)
    if canary:
        sig = re.sub(r'\bfn\s+(r#)?' + re.escape(item.name) + r'\b', 'fn ' + item.name + '__canary', sig, count=1)
    if 'mutself' in opts:
        # rule D10 (Verus: "does not yet support mut self"): the by-value receiver `mut self` is declared `self` and
        # rebound by `let mut self_ = self;` as the first statement; every `self` token of the body becomes `self_`
        sig, nsub = re.subn(r'\bmut\s+self\b', 'self', sig, count=1)
        if nsub != 1:
            raise LostAnchor('%s: option mutself but no `mut self` receiver' % item.name)
    em.emit(sig.rstrip(), sf.rel, R.line_of(src, sig_start))
    if d and d.spec[0].strip():
        spec = d.spec[0]
        if canary:
            spec = canary_spec(spec)
        em.emit(spec, 'unit', d.spec[1])
    elif canary:
        em.emit_fixed('    ensures false,', 'unit', d.line)
    if 'body=unimplemented' in opts:
        em.emit_fixed('{ unimplemented!() }', 'unit', d.line if d else 0)
        em.funcs.append({'name': item.name, 'path': d.path if d else item.name, 'file': sf.rel,
                         'start': gen_start, 'end': em.lineno - 1, 'canary': canary, 'assumed': True,
                         'src_line': R.line_of(src, item.decl)})
        return
    em.emit_fixed('{', sf.rel, R.line_of(src, body_open))
    if 'mutself' in opts:
        em.emit_fixed('    let mut self_ = self;', 'unit', d.line if d else 0)
    if d and d.head[0].strip():
        em.emit(d.head[0], 'unit', d.head[1])
    # body with loop splices
    edits = apply_drops(sf, body_open + 1, body_close, drops)  # start -> (end, text)
    if 'mutself' in opts:
        for mm in re.finditer(r'(?<![A-Za-z0-9_])self(?![A-Za-z0-9_])', src[body_open + 1:body_close]):
            k = body_open + 1 + mm.start()
            if mask[k] and k not in edits:
                edits[k] = (k + 4, 'self_')
                drops['D10 mut-self receiver rebound'] = drops.get('D10 mut-self receiver rebound', 0) + 1
    if 'unenumerate' in opts:
        # rule D11 (Verus: "assume_specification for a provided trait method" is unsupported, `Iterator::enumerate` has no
        # vstd specification): `for (IDENT, PAT) in EXPR.enumerate() {` is taken as `for PAT in EXPR {` when IDENT occurs
        # in the loop body only inside string literals (inline format captures of diagnostics whose arguments rule D3
        # does not evaluate anyway).  Any other use of IDENT => the rule does not apply => undecided (exit 2).
        n11 = 0
        for (kw_i, kw, b_open) in R.find_loops(src, mask, body_open + 1, body_close):
            if kw != 'for':
                continue
            header = src[kw_i:b_open]
            m11 = re.match(r'for\s*\(\s*([A-Za-z_][A-Za-z0-9_]*)\s*,\s*', header)
            tail = re.search(r'\.\s*enumerate\s*\(\s*\)\s*$', header)
            if not m11 or not tail:
                continue
            # the `)` closing the outer tuple pattern: the last `)` before the top-level ` in `
            p_open = kw_i + header.index('(')
            p_close = R.match_delim(src, mask, p_open)
            ident = m11.group(1)
            b_close = R.match_delim(src, mask, b_open)
            for mm in re.finditer(r'(?<![A-Za-z0-9_])' + re.escape(ident) + r'(?![A-Za-z0-9_])', src[b_open:b_close]):
                if mask[b_open + mm.start()]:
                    raise LostAnchor('%s: rule D11 does not apply: the enumerate index `%s` is used outside diagnostics text' % (item.name, ident))
            edits[p_open] = (kw_i + m11.end(), ' ' * (kw_i + m11.end() - p_open))
            edits[p_close] = (p_close + 1, ' ')
            edits[kw_i + tail.start()] = (b_open, blank(src[kw_i + tail.start():b_open]))
            n11 += 1
            drops['D11 enumerate index used only in diagnostics dropped'] = drops.get('D11 enumerate index used only in diagnostics dropped', 0) + 1
        if n11 == 0:
            raise LostAnchor('%s: option unenumerate but no `for (i, ..) in ...enumerate()` loop' % item.name)
    if 'tailcontinue' in opts:
        # rule D12 (Verus: "for-loops do not yet support continue"): a `continue` that is the whole right-hand side of a
        # match arm, where that match is the LAST statement of the body of the innermost enclosing `for` loop, is taken as
        # `{}` (falling off the end of the loop body starts the next iteration: the same control flow).  The side condition
        # is checked syntactically here; a `continue` anywhere else => the rule does not apply => undecided (exit 2).
        loops12 = R.find_loops(src, mask, body_open + 1, body_close)
        n12 = 0
        for mm in re.finditer(r'(?<![A-Za-z0-9_])continue(?![A-Za-z0-9_])', src[body_open + 1:body_close]):
            k = body_open + 1 + mm.start()
            if not mask[k]:
                continue
            # innermost enclosing loop
            encl = [(kw_i, kw, bo) for (kw_i, kw, bo) in loops12 if bo < k < R.match_delim(src, mask, bo)]
            if not encl:
                raise LostAnchor('%s: rule D12: `continue` outside a loop' % item.name)
            kw_i, kw, bo = encl[-1]
            bc = R.match_delim(src, mask, bo)
            # innermost enclosing brace of the `continue`
            depth = 0
            m_open = None
            q = k - 1
            while q > bo:
                if mask[q]:
                    if src[q] in ')]}':
                        depth += 1
                    elif src[q] in '([{':
                        if depth == 0:
                            m_open = q
                            break
                        depth -= 1
                q -= 1
            ok = m_open is not None and src[m_open] == '{' and kw == 'for'
            if ok:
                m_close = R.match_delim(src, mask, m_open)
                # the brace belongs to a `match <scrutinee> {` statement that starts right after the previous statement
                stmt_lo = max(src.rfind(';', bo, m_open), src.rfind('}', bo, m_open), src.rfind('{', bo, m_open)) + 1
                ok = re.match(r'\s*match\b', src[stmt_lo:m_open]) is not None
                # ... whose closing brace is the last token of the loop body
                ok = ok and R.skip_ws(src, mask, m_close + 1, bc + 1) == bc
                # ... and the `continue` is the whole arm: `=> continue ,|}`
                before = src[m_open:k].rstrip()
                after = src[k + 8:m_close + 1].lstrip()
                ok = ok and before.endswith('=>') and (after.startswith(',') or after.startswith('}'))
            if not ok:
                raise LostAnchor('%s: rule D12 does not apply to the `continue` at line %d' % (item.name, R.line_of(src, k)))
            edits[k] = (k + 8, '{}      ')
            n12 += 1
            drops['D12 tail-position continue taken as {}'] = drops.get('D12 tail-position continue taken as {}', 0) + 1
        if n12 == 0:
            raise LostAnchor('%s: option tailcontinue but no `continue`' % item.name)
    splices = {}   # offset -> (text, unit_line) inserted *before* the char at offset, on own lines
    inline = {}    # offset -> text inserted inline
    if d:
        loops = R.find_loops(src, mask, body_open + 1, body_close)
        for n, info in d.loops.items():
            if n >= len(loops) and info.get('optional'):
                continue
            if n >= len(loops):
                raise LostAnchor('%s: loop #%d not found (function has %d loops)' % (d.path, n, len(loops)))
            kw_i, kw, b_open = loops[n]
            header = src[kw_i:b_open]
            if info['match'] and not re.search(info['match'], header, re.S):
                raise LostAnchor('%s: loop #%d header %r does not match /%s/' % (d.path, n, header.strip(), info['match']))
            if info['binder']:
                if kw != 'for':
                    raise LostAnchor('%s: loop #%d is not a for loop' % (d.path, n))
                m = None
                for mm in re.finditer(r'\bin\b', src[kw_i:b_open]):
                    pos = kw_i + mm.start()
                    if not mask[pos]:
                        continue
                    depth = 0
                    for q in range(kw_i + 3, pos):
                        if mask[q]:
                            if src[q] in '([{':
                                depth += 1
                            elif src[q] in ')]}':
                                depth -= 1
                    if depth == 0:
                        m = mm
                        break
                if m is None:
                    raise LostAnchor('%s: cannot find `in` of loop #%d' % (d.path, n))
                inline[kw_i + m.end()] = ' %s:' % info['binder']
            splices[b_open] = (info['text'], info['line'])
        if len(loops) != len(d.loops) and d.loops:
            # loops without invariants are allowed (Verus will complain if it needs one)
            pass
        for (where, lit, text, uline) in d.inserts:
            ins_optional = where.endswith('?')
            where = where.rstrip('?')
            if ins_optional and src.find(lit, body_open + 1, body_close) < 0:
                continue
            if where.endswith('_last'):
                k = src.rfind(lit, body_open + 1, body_close)
                where = where[:-5]
            else:
                k = src.find(lit, body_open + 1, body_close)
            if k < 0:
                raise LostAnchor('%s: anchor %r not found' % (d.path, lit))
            ls = src.rfind('\n', 0, k) + 1
            le = src.find('\n', k)
            if where == 'before':
                splices[ls] = (text, uline)
            elif where == 'after_block':
                # after the closing brace of the block opened on the anchor line
                bo = k
                while bo < le and not (src[bo] == '{' and mask[bo]):
                    bo += 1
                if bo >= le:
                    raise LostAnchor('%s: anchor %r opens no block on its line' % (d.path, lit))
                bc = R.match_delim(src, mask, bo)
                le2 = src.find('\n', bc)
                splices[le2 + 1] = (text, uline)
            else:
                splices[le + 1] = (text, uline)
    if d:
        for nname, nd in d.nested.items():
            m = re.search(r'\bfn\s+' + re.escape(nname) + r'\b', src[body_open + 1:body_close])
            if not m or not mask[body_open + 1 + m.start()]:
                raise LostAnchor('%s: nested fn %s not found' % (d.path, nname))
            f0 = body_open + 1 + m.start()
            b0 = R.find_at_depth0(src, mask, f0, body_close, '{', track='([')
            nsig = src[f0:b0]
            if nd.ret:
                nsig = name_return(nsig, nd.ret)
            new = ''.join(a + '\n' for a in nd.attrs) + nsig.rstrip() + '\n' + nd.spec[0] + '\n{\n' + nd.head[0] + '\n'
            edits[f0] = (b0 + 1, new)
        for (lit, ret, text, uline) in d.closures:
            nth = 1
            c_optional = lit.endswith('\x01')
            lit = lit.rstrip('\x01')
            if '\x00' in lit:
                lit, nth_s = lit.split('\x00')
                nth = int(nth_s)
            k = body_open
            for _ in range(nth):
                k = src.find(lit, k + 1, body_close)
                if k < 0:
                    break
            if k < 0 and c_optional:
                continue
            if k < 0 or src[k] != '|' and not src.startswith('move', k):
                raise LostAnchor('%s: closure %r not found' % (d.path, lit))
            p0 = src.index('|', k)
            p1 = src.index('|', p0 + 1)          # end of parameter list (no `|` patterns in params)
            b = R.skip_ws(src, mask, p1 + 1, body_close)
            rname, rtype = ret.split(':', 1)
            contract = ' -> (%s: %s) %s ' % (rname, rtype.replace('~', ' '), ' '.join(text.split()))
            if src[b] == '{':
                inline[b] = inline.get(b, '') + contract
            else:
                e = R.find_at_depth0(src, mask, b, body_close, ',);', track='([{')
                if e < 0:
                    raise LostAnchor('%s: cannot find the end of closure %r' % (d.path, lit))
                inline[b] = inline.get(b, '') + contract + '{ '
                inline[e] = ' }' + inline.get(e, '')
    # walk the body
    i = body_open + 1
    seg_start = i
    cur = []

    def flush_seg(upto):
        nonlocal cur, seg_start
        text = ''.join(cur)
        if text != '':
            em.emit(text, sf.rel, R.line_of(src, seg_start))
        cur = []
        seg_start = upto

    while i < body_close:
        if i in splices:
            text, uline = splices[i]
            # close current line segment: ensure spliced text is on its own lines
            joined = ''.join(cur)
            if joined and not joined.endswith('\n'):
                cur.append('\n')
            flush_seg(i)
            em.emit(text, 'unit', uline)
        if i in inline:
            cur.append(inline[i])
        if i in edits:
            e, text = edits[i]
            if text.count('\n') != src[i:e].count('\n'):
                # replacement changes the line count (nested-fn contract): emit it as its own block
                flush_seg(i)
                em.emit(text, 'unit', d.line if d else 0)
                seg_start = e
            else:
                cur.append(text)
            i = e
            continue
        cur.append(src[i])
        i += 1
    flush_seg(i)
    em.emit_fixed('}', sf.rel, R.line_of(src, body_close))
    em.funcs.append({'name': item.name, 'path': d.path if d else item.name, 'file': sf.rel,
                     'start': gen_start, 'end': em.lineno - 1, 'canary': canary,
                     'assumed': 'external_body' in opts, 'contract': d is not None,
                     'src_line': R.line_of(src, item.decl)})


def name_return(sig, ret):
    # find '->' at depth 0 after the parameter list
    depth = 0
    arrow = None
    i = 0
    n = len(sig)
    seen_params = False
    while i < n:
        c = sig[i]
        if c in '([':
            depth += 1
        elif c in ')]':
            depth -= 1
            if depth == 0 and c == ')':
                seen_params = True
        elif c == '<' and seen_params is False:
            pass
        elif depth == 0 and seen_params and sig.startswith('->', i):
            arrow = i
            break
        i += 1
    m_where = None
    if arrow is None:
        # no return type
        m_where = re.search(r'\bwhere\b', sig)
        cut = m_where.start() if m_where else n
        return sig[:cut].rstrip() + ' -> (%s: ())' % ret + (' ' + sig[cut:] if m_where else '')
    rest = sig[arrow + 2:]
    m_where = re.search(r'\bwhere\b', rest)
    ty = rest[:m_where.start()] if m_where else rest
    tail = rest[m_where.start():] if m_where else ''
    return sig[:arrow] + '-> (%s: %s)' % (ret, ty.strip()) + (' ' + tail if tail else '')


def generate(unit_dir, out_path, canary=False):
    unit_file = os.path.join(unit_dir, 'unit.vrs')
    nodes = parse_unit(unit_file)
    em = Emitter()
    drops = {}
    contracts = []
    em.emit_fixed('// GENERATED by tools/wacx.py from %s and the current working tree of %s -- do not edit' % (unit_file, REPO), 'unit', 0)
    for node in nodes:
        if node[0] == 'raw':
            em.emit(node[1], 'unit', node[2])
        elif node[0] == 'raw_fixed':
            em.emit_fixed(node[1], 'unit', node[2])
        elif node[0] == 'expect':
            sf = SourceFile.get(node[1])
            if re.sub(r'\s+', ' ', node[2]) not in re.sub(r'\s+', ' ', sf.src):
                raise LostAnchor('expected text %r no longer present in %s' % (node[2], node[1]))
        elif node[0] == 'take_types':
            _, file, exc, line, topts = node
            sf = SourceFile.get(file)
            for it in sf.items:
                if it.kind in ('struct', 'enum') and it.name not in exc:
                    emit_take(em, sf, it, topts, drops, line)
        elif node[0] == 'take':
            _, file, path, opts, line = node
            sf = SourceFile.get(file)
            item = sf.find(path)
            emit_take(em, sf, item, opts, drops, line)
        elif node[0] == 'fn':
            d = node[1]
            sf = SourceFile.get(d.file)
            item = sf.find(d.path)
            if item.kind != 'fn':
                raise LostAnchor('%s is not a fn' % d.path)
            wrap = impl_wrap_open(sf, item) if 'nowrap' not in d.opts else None
            if wrap:
                em.emit_fixed(wrap, sf.rel, R.line_of(sf.src, item.parent.decl))
            want_canary = canary and 'canary=no' not in d.opts and 'external_body' not in d.opts and 'nowrap' not in d.opts
            if want_canary:
                # the original is not re-verified in the canary file
                d2_opts = d.opts
                d.opts = d.opts + ['external_body', 'body=unimplemented']
                render_fn(sf, item, d, drops, em, canary=False)
                d.opts = d2_opts
                render_fn(sf, item, d, drops, em, canary=True)
            else:
                render_fn(sf, item, d, drops, em, canary=False)
            if wrap:
                em.emit_fixed('}', 'unit', d.line)
            secs = spec_sections(d.spec[0])
            info = {'path': d.path, 'file': d.file, 'src_line': R.line_of(sf.src, item.decl),
                    'requires': sum(split_clauses(b) for k, b in secs if k == 'requires'),
                    'ensures': sum(split_clauses(b) for k, b in secs if k == 'ensures'),
                    'invariants': 0, 'loops': len(d.loops), 'assumed': 'external_body' in d.opts,
                    'canary': 'canary=no' not in d.opts and 'external_body' not in d.opts and 'nowrap' not in d.opts}
            for n, linfo in d.loops.items():
                for k, b in spec_sections(linfo['text']):
                    if k.startswith('invariant'):
                        info['invariants'] += split_clauses(b)
            body = sf.src[item.body_open:item.end]
            bm = sf.mask[item.body_open:item.end]
            code = ''.join(c if bm[i] else ' ' for i, c in enumerate(body))
            info['panic_sites'] = len(re.findall(r'\.unwrap\(\)|\.expect\(|\bpanic!|\bassert!|\bassert_eq!|\bunreachable!|\bunimplemented!|\w\[', code))
            info['calls'] = len(re.findall(r'\w\s*\(', code))
            contracts.append(info)
    text = '\n'.join(em.lines) + '\n'
    os.makedirs(os.path.dirname(out_path), exist_ok=True)
    with open(out_path, 'w', encoding='utf-8') as f:
        f.write(text)
    meta = {'origin': em.origin, 'funcs': em.funcs, 'drops': drops, 'contracts': contracts,
            'unit_file': unit_file}
    with open(out_path + '.map.json', 'w') as f:
        json.dump(meta, f)
    return meta


if __name__ == '__main__':
    import argparse
    ap = argparse.ArgumentParser()
    ap.add_argument('unit_dir')
    ap.add_argument('out')
    ap.add_argument('--canary', action='store_true')
    a = ap.parse_args()
    try:
        meta = generate(a.unit_dir, a.out, a.canary)
    except LostAnchor as e:
        print('LOST-ANCHOR: %s' % e)
        sys.exit(2)
    print('generated %s: %d lines, %d functions, drops=%s' % (a.out, len(meta['origin']), len(meta['funcs']), meta['drops']))
