#![feature(allocator_api)]
use vstd::prelude::*;
use vstd::std_specs::iter::*;
use std::collections::HashMap;
use std::collections::hash_map::ValuesMut;
verus! {
#[verifier::reject_recursive_types(K)]
#[verifier::reject_recursive_types(V)]
#[verifier::external_type_specification]
#[verifier::external_body]
pub struct ExValuesMut<'a, K: 'a, V: 'a>(ValuesMut<'a, K, V>);

pub uninterp spec fn vm_keys<'a, K, V>(it: ValuesMut<'a, K, V>) -> Seq<K>;

#[verifier::prophetic]
pub open spec fn vm_link<K, V>(cur: Map<K, V>, fin: Map<K, V>, s: Seq<&mut V>) -> bool {
    exists|keys: Seq<K>| keys.no_duplicates() && keys.to_set() == cur.dom() && keys.len() == s.len()
        && forall|i: int| 0 <= i < keys.len() ==> *(#[trigger] s[i]) == cur[keys[i]] && *final(s[i]) == fin[keys[i]]
}
pub assume_specification<K, V, S, A: std::alloc::Allocator> [HashMap::<K, V, S, A>::values_mut] (m: &mut HashMap<K, V, S, A>) -> (it: ValuesMut<'_, K, V>)
    ensures
        final(m)@.dom() == old(m)@.dom(),
        vm_link(old(m)@, final(m)@, it.remaining()),
        it.obeys_prophetic_iter_laws(), it.decrease() is Some,
;
pub assume_specification<'a, K, V> [<ValuesMut<'a, K, V> as Iterator>::next] (it: &mut ValuesMut<'a, K, V>) -> (r: Option<&'a mut V>);

fn upd(m: &mut HashMap<u64, u64>, old_name: u64, new_name: u64)
    ensures final(m)@.dom() == old(m)@.dom(),
        forall|k: u64| old(m)@.contains_key(k) ==> final(m)@[k] == (if old(m)@[k] == old_name { new_name } else { old(m)@[k] }),
{
    let ghost fin = final(m)@;
    for redirect in it: m.values_mut()
        invariant it.iter.obeys_prophetic_iter_laws(), it.iter.decrease() is Some,
            vm_link(old(m)@, fin, it.seq()),
            it.index@ == it.seq().len() ==> forall|k: u64| old(m)@.contains_key(k) ==> #[trigger] fin[k] == (if old(m)@[k] == old_name { new_name } else { old(m)@[k] }),
            forall|j: int| 0 <= j < it.index@ ==> *final(#[trigger] it.seq()[j]) == (if *it.seq()[j] == old_name { new_name } else { *it.seq()[j] }),
    {
        if *redirect == old_name {
            *redirect = new_name;
        }
        assert(it.index@ + 1 == it.seq().len() ==> forall|k: u64| old(m)@.contains_key(k) ==> #[trigger] fin[k] == (if old(m)@[k] == old_name { new_name } else { old(m)@[k] })) by {
            if it.index@ + 1 == it.seq().len() {
                let keys = choose|keys: Seq<u64>| keys.no_duplicates() && keys.to_set() == old(m)@.dom() && keys.len() == it.seq().len()
                    && forall|i: int| 0 <= i < keys.len() ==> *(#[trigger] it.seq()[i]) == old(m)@[keys[i]] && *final(it.seq()[i]) == fin[keys[i]];
                assert forall|k: u64| old(m)@.contains_key(k) implies #[trigger] fin[k] == (if old(m)@[k] == old_name { new_name } else { old(m)@[k] }) by {
                    assert(keys.to_set().contains(k));
                    let i = choose|i: int| 0 <= i < keys.len() && keys[i] == k;
                    assert(*it.seq()[i] == old(m)@[keys[i]]);
                }
            }
        }
    }
}
}
fn main() {}
