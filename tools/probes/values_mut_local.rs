#![feature(allocator_api)]
use vstd::prelude::*;
use vstd::std_specs::iter::*;
use std::collections::HashMap;
use std::collections::hash_map::ValuesMut;
verus! {
#[verifier::reject_recursive_types(K)]
#[verifier::reject_recursive_types(V)]
#[verifier::external_type_specification]
#[verifier::external_body]
pub struct ExValuesMut<'a, K: 'a, V: 'a>(ValuesMut<'a, K, V>);

pub uninterp spec fn vm_keys<'a, K, V>(it: ValuesMut<'a, K, V>) -> Seq<K>;

#[verifier::prophetic]
pub open spec fn vm_link<K, V>(cur: Map<K, V>, fin: Map<K, V>, s: Seq<&mut V>) -> bool {
    exists|keys: Seq<K>| keys.no_duplicates() && keys.to_set() == cur.dom() && keys.len() == s.len()
        && forall|i: int| 0 <= i < keys.len() ==> *(#[trigger] s[i]) == cur[keys[i]] && *final(s[i]) == fin[keys[i]]
}
pub assume_specification<K, V, S, A: std::alloc::Allocator> [HashMap::<K, V, S, A>::values_mut] (m: &mut HashMap<K, V, S, A>) -> (it: ValuesMut<'_, K, V>)
    ensures
        final(m)@.dom() == old(m)@.dom(),
        vm_link(old(m)@, final(m)@, it.remaining()),
        it.obeys_prophetic_iter_laws(), it.decrease() is Some,
;
pub assume_specification<'a, K, V> [<ValuesMut<'a, K, V> as Iterator>::next] (it: &mut ValuesMut<'a, K, V>) -> (r: Option<&'a mut V>);

pub struct S { pub m: HashMap<u64, u64>, pub other: u64 }
pub open spec fn concl(cur: Map<u64, u64>, fin: Map<u64, u64>, old_name: u64, new_name: u64) -> bool {
    forall|k: u64| cur.contains_key(k) ==> #[trigger] fin[k] == (if cur[k] == old_name { new_name } else { cur[k] })
}
#[verifier::loop_isolation(false)]
fn upd(s0: S, old_name: u64, new_name: u64) -> (r: S)
    ensures r.m@.dom() == s0.m@.dom(), concl(s0.m@, r.m@, old_name, new_name), r.other == s0.other,
{
    let mut s = s0;
    let ghost cur = s.m@;
    for redirect in it: s.m.values_mut()
        invariant it.iter.obeys_prophetic_iter_laws(), it.iter.decrease() is Some,
            forall|j: int| 0 <= j < it.index@ ==> *final(#[trigger] it.seq()[j]) == (if *it.seq()[j] == old_name { new_name } else { *it.seq()[j] }),
            it.index@ == it.seq().len() ==> forall|fin: Map<u64, u64>| #[trigger] vm_link(cur, fin, it.seq()) ==> concl(cur, fin, old_name, new_name),
    {
        if *redirect == old_name {
            *redirect = new_name;
        }
        assert(it.index@ + 1 == it.seq().len() ==> forall|fin: Map<u64, u64>| #[trigger] vm_link(cur, fin, it.seq()) ==> concl(cur, fin, old_name, new_name)) by {
            if it.index@ + 1 == it.seq().len() {
                assert forall|fin: Map<u64, u64>| #[trigger] vm_link(cur, fin, it.seq()) implies concl(cur, fin, old_name, new_name) by {
                    let keys = choose|keys: Seq<u64>| keys.no_duplicates() && keys.to_set() == cur.dom() && keys.len() == it.seq().len()
                        && forall|i: int| 0 <= i < keys.len() ==> *(#[trigger] it.seq()[i]) == cur[keys[i]] && *final(it.seq()[i]) == fin[keys[i]];
                    assert forall|k: u64| cur.contains_key(k) implies #[trigger] fin[k] == (if cur[k] == old_name { new_name } else { cur[k] }) by {
                        assert(keys.to_set().contains(k));
                        let i = choose|i: int| 0 <= i < keys.len() && keys[i] == k;
                        assert(*it.seq()[i] == cur[keys[i]]);
                    }
                }
            }
        }
    }
    s
}
}
fn main() {}
