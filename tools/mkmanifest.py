#!/usr/bin/env python3
"""Regenerates MANIFEST.json from units/props.json (claimed properties) and units/not_applicable.json."""
import json, os
ROOT = os.path.dirname(os.path.dirname(os.path.abspath(__file__)))
props = json.load(open(os.path.join(ROOT, 'units', 'props.json')))
na = json.load(open(os.path.join(ROOT, 'units', 'not_applicable.json')))
all_ids = [json.loads(l)['id'] for l in open(os.path.join(ROOT, 'properties.jsonl')) if l.strip()]
checks = []
for pid in all_ids:
    if pid not in props:
        continue
    pc = props[pid]
    checks.append({
        'property_id': pid,
        'quick_cmd': 'bin/check %s --tier quick' % pid,
        'thorough_cmd': 'bin/check %s --tier thorough' % pid,
        'evidence_file': 'evidence/%s.json' % pid,
        'replay_cmd_template': 'bin/check %s --replay {path}' % pid,
        'engine': 'verus-contracts',
        'level_claimed': {'category': pc.get('level', 'proof'), 'text': pc['level_text'], 'design_ref': pc.get('design_ref', 'DESIGN.md section 6')},
        'level_note': pc['level_note'],
        'technique': pc.get('technique', 'contract-based deductive verification (Verus) of mechanically extracted real functions'),
    })
claimed = set(props)
nas = [{'property_id': pid, 'reason': na[pid]} for pid in all_ids if pid not in claimed]
missing = [pid for pid in all_ids if pid not in claimed and pid not in na]
assert not missing, missing
man = {
    'version': 1,
    'setup_cmd': 'bin/setup',
    'hooks': {'guard': 'wac_verif', 'enable': 'RUSTFLAGS="--cfg wac_verif" (no hook is needed: extraction reads the unmodified sources)',
              'baseline_off_cmd': 'cd /repo && cargo test --workspace --no-fail-fast --offline',
              'source_commits': [], 'add_only': True},
    'engines': [{'name': 'verus-contracts', 'path': 'bin/check',
                 'serves_properties': sorted(claimed),
                 'kind_free_text': 'tools/wacx.py re-extracts the real wac functions from /repo on every run, splices the contracts of units/<U>/unit.vrs, Verus discharges every obligation against the real third-party rlibs; canary twins guard vacuity'}],
    'checks': checks,
    'not_applicable': nas,
    'notes': 'Exit codes of bin/check: 0 all obligations discharged (KNOWN-FINDING lines possible), 1 VIOLATION (an obligation that is discharged on the unchanged tree fails), 2 undecided (lost anchor, construct outside the Verus dialect, rlimit) - never an alarm. See DESIGN.md.',
}
json.dump(man, open(os.path.join(ROOT, 'MANIFEST.json'), 'w'), indent=1)
print('MANIFEST.json: %d checks, %d not_applicable' % (len(checks), len(nas)))
