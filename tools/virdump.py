#!/usr/bin/env python3
"""Pretty-print the contract (requires/ensures/returns/body) of functions found in a
Verus `--log vir` dump (crate.vir).  vstd's source is not on this image; this is how the
specs of imported vstd/std functions are read.  usage: virdump.py crate.vir <fn-path-substring>..."""
import re, sys

def parse(s):
    # tokenise s-expr with strings
    toks = re.findall(r'"(?:[^"\\]|\\.)*"|[()]|[^\s()"]+', s)
    pos = 0
    def rd():
        nonlocal pos
        t = toks[pos]; pos += 1
        if t == '(':
            l = []
            while toks[pos] != ')':
                l.append(rd())
            pos += 1
            return l
        return t
    out = []
    while pos < len(toks):
        if toks[pos] == ')':
            pos += 1; continue
        out.append(rd())
    return out

def kw(l, key):
    for i, x in enumerate(l):
        if x == key and i + 1 < len(l):
            return l[i + 1]
    return None

def path_of(f):
    # (Fun :path a::b)
    if isinstance(f, list) and f and f[0] == 'Fun':
        return kw(f, ':path')
    return str(f)

def short(p):
    if not isinstance(p, str): return str(p)
    parts = p.split('::')
    return '::'.join(parts[-2:]) if len(parts) > 2 else p

def ex(e):
    """render a VIR expr"""
    if not isinstance(e, list): return str(e)
    if not e: return '()'
    h = e[0]
    if h in ('@', '@@') and len(e) >= 3: return ex(e[2])
    if h == '>':  # (> Kind ...) typ
        return exk(e[1:])
    if len(e) == 2 and isinstance(e[0], list) and e[0] and e[0][0] == '>':
        return ex(e[0])
    if isinstance(h, list):
        return ex(h)
    return exk(e)

def exk(e):
    h = e[0]
    if h == 'Const':
        c = e[1]
        return ' '.join(map(str, c[1:])) if isinstance(c, list) else str(c)
    if h == 'Call':
        tgt = kw(e, ':target'); args = kw(e, ':args') or []
        name = '?'
        if isinstance(tgt, list):
            for x in tgt:
                if isinstance(x, list) and x and x[0] == 'Fun':
                    name = short(path_of(x))
        return f"{name}({', '.join(ex(a) for a in args)})"
    if h == 'Binary':
        op = e[1]
        ops = ' '.join(str(x) for x in (op[1:] if isinstance(op, list) else [op]) if not isinstance(x, list))
        sym = {'Eq Spec': '==', 'Ne': '!=', 'Inequality Le': '<=', 'Inequality Lt': '<', 'Inequality Ge': '>=', 'Inequality Gt': '>',
               'Arith Add': '+', 'Arith Sub': '-', 'And': '&&', 'Or': '||', 'Implies': '==>', 'Eq Exec': '=='}.get(ops, f'<{ops}>')
        return f"({ex(e[2])} {sym} {ex(e[3])})" if len(e) >= 4 else f"Binary{e[1:]}"
    if h == 'Logical':
        op = e[1][1] if isinstance(e[1], list) else e[1]
        sym = {'And': ' && ', 'Or': ' || ', 'Implies': ' ==> '}.get(op, f' {op} ')
        return '(' + sym.join(ex(x) for x in e[2:]) + ')'
    if h == 'Multi':
        return 'chain(' + ', '.join(ex(x) for x in e[2:]) + ')'
    if h == 'Unary':
        op = e[1]
        opn = op[1] if isinstance(op, list) and len(op) > 1 else op
        if opn in ('CoerceMode', 'Clip', 'Trigger', 'MustBeFinalized', 'MustBeElaborated'): return ex(e[2])
        if opn == 'MutRefFuture': return f"final({ex(e[2])})"
        if opn == 'MutRefCurrent': return f"cur({ex(e[2])})"
        if opn == 'Not': return f"!{ex(e[2])}"
        return f"{opn}({ex(e[2])})"
    if h == 'UnaryOpr':
        op = e[1]
        if isinstance(op, list) and len(op) > 1 and op[1] == 'IsVariant':
            return f"({ex(e[2])} is {kw(op, ':variant')})"
        if isinstance(op, list) and len(op) > 1 and op[1] == 'Field':
            return f"{ex(e[2])}.{kw(op[2], ':field') if isinstance(op[2], list) else op}"
        return f"opr{op[1] if isinstance(op, list) else op}({ex(e[2])})"
    if h == 'ReadPlace': return pl(e[1])
    if h == 'Old': return f"old({ex(e[1])})"
    if h == 'Block':
        return ex(e[2]) if len(e) > 2 else 'block'
    if h == 'Quant':
        return f"{e[1]}[{e[2] if len(e) > 2 else ''}]({ex(e[-1])})"
    if h == 'If': return f"if {ex(e[1])} {{ {ex(e[2])} }} else {{ {ex(e[3]) if len(e) > 3 else ''} }}"
    if h == 'Match': return 'match(' + ex(e[1]) + ') {...}'
    if h == 'Var': return str(e[1][1]).strip('"') if isinstance(e[1], list) else str(e[1])
    if h == 'Ctor': return f"ctor{e[1:3]}"
    return f"{h}[…]"

def pl(p):
    if not isinstance(p, list): return str(p)
    if p and isinstance(p[0], list) and len(p) >= 1 and p[0] and p[0][0] == 'Place':
        return pl(p[0])
    if p and p[0] in ('@', '@@'): return pl(p[2])
    if p and p[0] == 'Place':
        k = p[1]
        if k == 'Local': return str(p[2][1]).strip('"')
        if k == 'Temporary': return ex(p[2])
        if k == 'DerefMut': return f"*{pl(p[2])}"
        if k == 'Field': return f"{pl(p[3])}.{kw(p[2], ':field')}"
        return f"{k}({', '.join(pl(x) for x in p[2:])})"
    return ex(p)

def main():
    src = open(sys.argv[1]).read()
    pats = sys.argv[2:]
    for m in re.finditer(r'\(Function\s+:name \(Fun :path ([^)\s]+)\)', src):
        name = m.group(1)
        if not any(p in name for p in pats): continue
        start = src.rfind('\n(@', 0, m.start()) + 1
        # the enclosing top-level form starts at line start
        depth = 0; i = start
        # scan to matching close
        instr = False
        while i < len(src):
            c = src[i]
            if instr:
                if c == '\\': i += 1
                elif c == '"': instr = False
            else:
                if c == '"': instr = True
                elif c == '(': depth += 1
                elif c == ')':
                    depth -= 1
                    if depth == 0: break
            i += 1
        form = parse(src[start:i + 1])[0]
        f = form
        while isinstance(f, list) and f and f[0] in ('@', '@@'): f = f[2]
        print('=' * 100); print('fn', name, ' mode', kw(f, ':mode'), ' kind', (kw(f, ':kind') or ['?'])[1] if isinstance(kw(f, ':kind'), list) else kw(f, ':kind'))
        params = kw(f, ':params') or []
        ps = []
        for p in params:
            q = p
            while isinstance(q, list) and q and q[0] in ('@', '@@'): q = q[2]
            if isinstance(q, list) and q and isinstance(q[0], list): q = q[0]
            nm = kw(q, ':name'); ps.append(str(nm[1]).strip('"') if isinstance(nm, list) else str(nm))
        print('  params:', ', '.join(ps))
        for key in (':require', ':ensure', ':returns', ':decrease'):
            v = kw(f, key)
            if v in (None, [], 'None'): continue
            if key == ':ensure' and isinstance(v, list) and v and v[0] == 'tuple':
                for grp in v[1:]:
                    for c in (grp or []): print('  ensures ', ex(c))
            elif isinstance(v, list):
                for c in v: print(' ', key[1:], ex(c))
        b = kw(f, ':body')
        if b not in (None, 'None'): print('  body    ', ex(b))

if __name__ == '__main__':
    main()
