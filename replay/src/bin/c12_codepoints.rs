//! Witness search / cross-check for detect_invalid_input (C12 "any text containing a bidirectional-override, deprecated
//! or control code point other than tab, CR and LF is rejected, wherever it occurs"): unit U6 proves the real function
//! for ALL texts; when the function is rewritten with constructs outside Verus's dialect the proof is undecided, so this
//! program looks for a concrete accepted / wrongly rejected text on the REAL parser.  EVERY Unicode scalar value is
//! placed, one at a time, inside a line comment, a block comment, a doc comment and a string name, in an otherwise
//! ASCII-only document and in a document that also contains a non-ASCII letter, at the start, and at the very end of the
//! text; the document must be rejected exactly for the code points the property lists, with an error span that covers
//! the code point.  (All 1,112,064 scalar values x 10 placements: complete for one offending code point per text, not
//! for combinations - labelled bounded.)  Exit 0 = agreement, 1 = a disagreeing text is printed.
use wac_parser::Document;

fn listed(c: char) -> bool {
    matches!(c, '\u{202a}'..='\u{202e}' | '\u{2066}'..='\u{2069}')                       // bidirectional overrides / isolates
        || matches!(c, '\u{149}' | '\u{673}' | '\u{f77}' | '\u{f79}' | '\u{17a3}' | '\u{17a4}' | '\u{17b4}' | '\u{17b5}') // deprecated / discouraged
        || (c.is_control() && !matches!(c, '\t' | '\r' | '\n'))                           // general category Cc
}

fn main() {
    let step: u32 = std::env::args().nth(1).and_then(|s| s.parse().ok()).unwrap_or(1);
    let (mut texts, mut rejected) = (0u64, 0u64);
    // (prefix, suffix): the code point goes between them
    let contexts: [(&str, &str); 10] = [
        ("package test:doc; // ", "\ninterface i {}\n"),
        ("package test:doc; /* ", " */ interface i {}\n"),
        ("package test:doc;\n/** doc ", " */\ninterface i {}\n"),
        ("package test:doc;\nimport x as \"a", "\": func();\n"),
        ("package test:doc; // é ", "\ninterface i {}\n"),
        ("package test:doc; /* /* é */ ", " */ interface i {}\n"),
        ("package test:doc;\nimport x as \"é", "\": func();\n"),
        ("// ", "\npackage test:doc;\n"),
        ("package test:doc;\n// ", ""),
        ("package test:doc;\n// é", ""),
    ];
    let mut cp = 0u32;
    while cp <= 0x10FFFF {
        if let Some(c) = char::from_u32(cp) {
            for (ci, (pre, post)) in contexts.iter().enumerate() {
                // a newline / CR ends a line comment and is not allowed inside a string: skip the placements whose
                // grammar meaning changes with the code point itself
                if (c == '\n' || c == '\r') && matches!(ci, 0 | 3 | 4 | 6 | 7) { continue; }
                if (c == '"' || c == '\\') && matches!(ci, 3 | 6) { continue; }
                if c == '\t' && matches!(ci, 3 | 6) { continue; }
                let src = format!("{pre}{c}{post}");
                texts += 1;
                let r = Document::parse(&src);
                match (&r, listed(c)) {
                    (Ok(_), false) => {}
                    (Err(e), true) => {
                        rejected += 1;
                        // the diagnostic must point at the code point
                        use miette::Diagnostic;
                        let ok = e.labels().map(|mut l| l.any(|s| s.offset() == pre.len() && s.len() == c.len_utf8())).unwrap_or(false);
                        if !ok {
                            println!("C12-BOUNDED VIOLATION: U+{cp:04X} in context {ci} is rejected but the error does not point at it: {e:?}; text: {src:?}");
                            std::process::exit(1);
                        }
                    }
                    (Ok(_), true) => { println!("C12-BOUNDED VIOLATION: a text containing U+{cp:04X} (listed as disallowed) was ACCEPTED; context {ci}; text: {src:?}"); std::process::exit(1); }
                    (Err(e), false) => { println!("C12-BOUNDED VIOLATION: a text containing only the harmless code point U+{cp:04X} was REJECTED ({e}); context {ci}; text: {src:?}"); std::process::exit(1); }
                }
            }
        }
        cp += step;
    }
    println!("C12-CODEPOINTS ok {{\"bounded\": true, \"code_point_step\": {step}, \"contexts\": {}, \"texts\": {texts}, \"rejected_as_listed\": {rejected}}}", contexts.len());
}
