//! Replay for C11 "the same verdict is reached by the stand-alone conformance check": a composition that imports
//! `a:b/c@0.2.0` checked against a world that imports `a:b/c@0.2.1`.
//!  * resolution time (`package .. targets ..`): AstResolver::validate_target looks the import up by its exact name;
//!  * stand-alone (`wac_types::validate_target` on the encoded component): semver-aware NameMap lookup.
//! Prints both verdicts; exit 1 when they differ.
use indexmap::IndexMap;
use wac_parser::Document;
use wac_types::{validate_target, BorrowedPackageKey, ItemKind, Package, Type, Types};

fn wit_pkg(text: &str) -> Vec<u8> {
    let mut resolve = wit_parser::Resolve::new();
    let pkg = resolve.push_str("p.wit", text).unwrap();
    wit_component::encode(&resolve, pkg).unwrap()
}

fn main() {
    let v020 = semver::Version::parse("0.2.0").unwrap();
    let v021 = semver::Version::parse("0.2.1").unwrap();
    let p020 = wit_pkg("package a:b@0.2.0;\ninterface c { f: func(); }\n");
    let p021 = wit_pkg("package a:b@0.2.1;\ninterface c { f: func(); }\nworld w { import c; }\n");
    let with_target = "package test:comp targets a:b/w@0.2.1;\nimport x: a:b/c@0.2.0;\n";
    let without_target = "package test:comp;\nimport x: a:b/c@0.2.0;\n";

    let resolve = |src: &str| -> Result<Vec<u8>, String> {
        let doc = Document::parse(src).map_err(|e| format!("parse: {e}"))?;
        let mut packages: IndexMap<BorrowedPackageKey, Vec<u8>> = IndexMap::new();
        packages.insert(BorrowedPackageKey::from_name_and_version("a:b", Some(&v020)), p020.clone());
        packages.insert(BorrowedPackageKey::from_name_and_version("a:b", Some(&v021)), p021.clone());
        let res = doc.resolve(packages).map_err(|e| format!("{e}"))?;
        res.encode(Default::default()).map_err(|e| format!("encode: {e}"))
    };

    let at_resolution = resolve(with_target);
    println!("resolution-time verdict (targets a:b/w@0.2.1): {}", match &at_resolution { Ok(_) => "conforms".to_string(), Err(e) => format!("REJECTED: {e}") });

    let bytes = resolve(without_target).expect("the composition itself resolves and encodes");
    let mut types = Types::default();
    let wit = Package::from_bytes("wit", None, p021.clone(), &mut types).unwrap();
    let comp = Package::from_bytes("component", None, bytes, &mut types).unwrap();
    let top = &types[wit.ty()];
    let ItemKind::Type(Type::World(wid)) = top.exports["w"] else { panic!("world w not exported") };
    let Some(ItemKind::Component(w)) = types[wid].exports.values().next().copied() else { panic!("bad wit encoding") };
    let standalone = validate_target(&types, w, comp.ty());
    println!("stand-alone verdict on the encoded component:    {}", match &standalone { Ok(()) => "conforms".to_string(), Err(e) => format!("REJECTED: {e}") });

    if at_resolution.is_ok() != standalone.is_ok() {
        println!("C11-REPLAY: the two conformance checks DISAGREE on the same composition and world");
        std::process::exit(1);
    }
    println!("C11-REPLAY: same verdict");
}
