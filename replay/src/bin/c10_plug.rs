//! BOUNDED stand-in for wac_graph::plug (C10).  plug() is one function built from closures that capture `&mut graph`
//! (`get_or_insert_with(|| graph.instantiate(..))`), `.iter().find(..)`, `.or_else(..)`, `.keys().cloned().collect()`:
//! outside Verus's dialect, so it has no contract of its own; the graph operations it calls (instantiate,
//! alias_instance_export, set_instantiation_argument, export) are proved in unit U4, are_semver_compatible in U1 and
//! is_subtype in U3.  Here every socket of a small universe is plugged with every ordered list of 1..MAX plugs by the REAL
//! function, and the outcome is compared with the property statement:
//!   * each socket import for which a plug exports a type-compatible item under the same name - or, when the socket has no
//!     import of that name, under a semver-compatible name - is supplied by that plug's export;
//!   * two plugs offering a compatible item for the same socket import: the operation fails (GraphError), it does not choose;
//!   * NoPlugHappened exactly when no socket import could be supplied;
//!   * on success every other socket import remains an import of the result, every socket export is exported under its
//!     own name, a plug contributing nothing is not instantiated, and the result encodes to a valid component
//!     (EncodeOptions::validate) whose imports/exports are read back by decoding it.
//! Universe: socket imports subset of { a:b/c@0.2.0 {f} (imported first), a:b/c@0.2.1 {f}, x: func, a:b/d {g} } (non-empty),
//! socket exports run [+ extra]; reading taken for a socket importing two versions of one track: an exact name wins, and
//! one plug export feeds one socket import (the other version stays an import);
//! plug export sets: {a:b/c@0.2.0 {f}}, {a:b/c@0.2.1 {f}}, {a:b/c@0.2.1 {f -> u8}} (incompatible), {x}, {x -> u8}
//! (incompatible), {z} (no match), {x, a:b/d {g}}, {a:b/c@0.3.0 {f}} (other track), {a:b/c@0.2.1 {f, g}} (more than needed:
//! compatible), {a:b/c@0.2.1 {}} (less than needed: incompatible), {a:b/c@0.2.0 {f}, a:b/c@0.2.1 {f}} (both versions).
//! Exit 0 = agreement, 1 = a disagreeing case is printed.   usage: c10_plug [max_plugs]
use std::collections::{BTreeMap, BTreeSet};
use wac_graph::{plug, CompositionGraph, EncodeOptions, NodeKind, PlugError};
use wac_types::{Package, Types};

#[derive(Clone, Copy, PartialEq, Eq, Debug, PartialOrd, Ord)]
enum Item { C020, C021, C021Bad, C030, X, XBad, Z, D, C021Big, C021Empty }   // what a plug can export

fn item_name(i: Item) -> &'static str {
    match i { Item::C020 => "a:b/c@0.2.0", Item::C021 | Item::C021Bad | Item::C021Big | Item::C021Empty => "a:b/c@0.2.1", Item::C030 => "a:b/c@0.3.0", Item::X | Item::XBad => "x", Item::Z => "z", Item::D => "a:b/d" }
}
const SOCKET_IMPORTS: [&str; 4] = ["a:b/c@0.2.1", "x", "a:b/d", "a:b/c@0.2.0"];

fn plug_wat(items: &[Item]) -> Vec<u8> {
    let mut s = String::from(r#"(component
  (core module $m (func (export "f")) (func (export "h") (result i32) i32.const 0))
  (core instance $i (instantiate $m))
  (func $f (canon lift (core func $i "f")))
  (func $h (result u8) (canon lift (core func $i "h")))
  (instance $cf (export "f" (func $f)))
  (instance $ch (export "f" (func $h)))
  (instance $dg (export "g" (func $f)))
  (instance $big (export "f" (func $f)) (export "g" (func $h)))
  (instance $empty)
"#);
    for it in items {
        let n = item_name(*it);
        match it {
            Item::C020 | Item::C021 | Item::C030 => s.push_str(&format!("  (export \"{n}\" (instance $cf))\n")),
            Item::C021Bad => s.push_str(&format!("  (export \"{n}\" (instance $ch))\n")),
            Item::C021Big => s.push_str(&format!("  (export \"{n}\" (instance $big))\n")),
            Item::C021Empty => s.push_str(&format!("  (export \"{n}\" (instance $empty))\n")),
            Item::D => s.push_str(&format!("  (export \"{n}\" (instance $dg))\n")),
            Item::X | Item::Z => s.push_str(&format!("  (export \"{n}\" (func $f))\n")),
            Item::XBad => s.push_str(&format!("  (export \"{n}\" (func $h))\n")),
        }
    }
    s.push(')');
    wat::parse_str(&s).unwrap_or_else(|e| panic!("{e}\n{s}"))
}
fn socket_wat(mask: u32, extra: bool) -> Vec<u8> {
    let mut s = String::from("(component\n");
    // a second version on the same semver track, imported BEFORE the first: an exact name must win over it
    if mask & 8 != 0 { s.push_str("  (import \"a:b/c@0.2.0\" (instance (export \"f\" (func))))\n"); }
    if mask & 1 != 0 { s.push_str("  (import \"a:b/c@0.2.1\" (instance (export \"f\" (func))))\n"); }
    if mask & 2 != 0 { s.push_str("  (import \"x\" (func))\n"); }
    if mask & 4 != 0 { s.push_str("  (import \"a:b/d\" (instance (export \"g\" (func))))\n"); }
    s.push_str(r#"  (core module $m (func (export "run")))
  (core instance $i (instantiate $m))
  (func $run (canon lift (core func $i "run")))
  (export "run" (func $run))
"#);
    if extra { s.push_str("  (export \"extra\" (func $run))\n"); }
    s.push(')');
    wat::parse_str(&s).unwrap_or_else(|e| panic!("{e}\n{s}"))
}

/// which socket import a plug item supplies (None: no matching import, or type-incompatible)
fn supplies(item: Item, socket_mask: u32) -> Option<&'static str> {
    let has = |n: &str| SOCKET_IMPORTS.iter().enumerate().any(|(i, m)| *m == n && socket_mask & (1 << i) != 0);
    // the socket import a `a:b/c@0.2.x` export goes to: its own name when the socket imports it, otherwise the first
    // semver-compatible import in the socket's import order (0.2.0 is imported before 0.2.1); one export feeds one import
    let c_target = |own: &'static str| -> Option<&'static str> { if has(own) { Some(own) } else if has("a:b/c@0.2.0") { Some("a:b/c@0.2.0") } else if has("a:b/c@0.2.1") { Some("a:b/c@0.2.1") } else { None } };
    match item {
        // an instance offering MORE than the socket needs is compatible, one offering less is not
        Item::C021 | Item::C021Big => c_target("a:b/c@0.2.1"),
        Item::C020 => c_target("a:b/c@0.2.0"),
        Item::C021Bad | Item::C021Empty | Item::XBad | Item::Z | Item::C030 => None,
        Item::X => if has("x") { Some("x") } else { None },
        Item::D => if has("a:b/d") { Some("a:b/d") } else { None },
    }
}

fn main() {
    let maxp: usize = std::env::args().nth(1).and_then(|s| s.parse().ok()).unwrap_or(2);
    let plug_kinds: Vec<Vec<Item>> = vec![
        vec![Item::C020], vec![Item::C021], vec![Item::C021Bad], vec![Item::X], vec![Item::XBad], vec![Item::Z], vec![Item::X, Item::D], vec![Item::C030], vec![Item::C021Big], vec![Item::C021Empty], vec![Item::C020, Item::C021],
    ];
    let mut lists: Vec<Vec<usize>> = vec![];
    let mut frontier: Vec<Vec<usize>> = vec![vec![]];
    for _ in 0..maxp {
        let mut next = vec![];
        for l in &frontier { for k in 0..plug_kinds.len() { if !l.contains(&k) { let mut m = l.clone(); m.push(k); next.push(m); } } }
        lists.extend(next.iter().cloned());
        frontier = next;
    }
    let (mut cases, mut ok, mut noplug, mut conflict) = (0u64, 0u64, 0u64, 0u64);
    let mut nontrivial: BTreeSet<(u32, Vec<usize>)> = BTreeSet::new();
    let mut samples: Vec<String> = vec![];
    for smask in 1u32..16 { for extra in [false, true] {
        for l in &lists {
            cases += 1;
            // ---- the property statement
            let mut supplied: BTreeMap<&str, (usize, &str)> = BTreeMap::new();   // socket import -> (plug position, plug export name)
            let mut clash = false;
            for (pos, k) in l.iter().enumerate() {
                for it in &plug_kinds[*k] {
                    if let Some(imp) = supplies(*it, smask) {
                        if supplied.contains_key(imp) { clash = true; } else { supplied.insert(imp, (pos, item_name(*it))); }
                    }
                }
            }
            let contributing: BTreeSet<usize> = supplied.values().map(|(p, _)| *p).collect();
            // ---- the real function
            let mut g = CompositionGraph::new();
            let mut plug_ids = vec![];
            for (pos, k) in l.iter().enumerate() {
                let pkg = Package::from_bytes(&format!("plug:p{pos}"), None, plug_wat(&plug_kinds[*k]), g.types_mut()).unwrap();
                plug_ids.push(g.register_package(pkg).unwrap());
            }
            let spkg = Package::from_bytes("sock:s", None, socket_wat(smask, extra), g.types_mut()).unwrap();
            let sid = g.register_package(spkg).unwrap();
            let r = std::panic::catch_unwind(std::panic::AssertUnwindSafe(|| { let r = plug(&mut g, plug_ids.clone(), sid); (r, g) }));
            let show = || format!("socket imports {:?}{}, plugs (in order) {:?}", SOCKET_IMPORTS.iter().enumerate().filter(|(i, _)| smask & (1 << i) != 0).map(|(_, n)| *n).collect::<Vec<_>>(), if extra { " + export extra" } else { "" }, l.iter().map(|k| plug_kinds[*k].iter().map(|i| format!("{:?}", i)).collect::<Vec<_>>()).collect::<Vec<_>>());
            let (r, g) = match r { Ok(x) => x, Err(_) => { println!("C10-BOUNDED VIOLATION: plug() PANICKED: {}", show()); std::process::exit(1); } };
            if clash {
                conflict += 1;
                match r { Err(PlugError::GraphError { .. }) => {}, other => { println!("C10-BOUNDED VIOLATION: two plugs offer a compatible item for the same socket import; plug() returned {:?} instead of failing: {}", other.map_err(|e| e.to_string()), show()); std::process::exit(1); } }
                continue;
            }
            if supplied.is_empty() {
                noplug += 1;
                match r { Err(PlugError::NoPlugHappened) => {}, other => { println!("C10-BOUNDED VIOLATION: nothing can be plugged; plug() returned {:?} instead of NoPlugHappened: {}", other.map_err(|e| e.to_string()), show()); std::process::exit(1); } }
                continue;
            }
            if let Err(e) = r { println!("C10-BOUNDED VIOLATION: plug() failed ({e}) although {:?} can be supplied: {}", supplied, show()); std::process::exit(1); }
            ok += 1;
            nontrivial.insert((smask, l.clone()));
            // the wiring: every supplied socket import is an argument fed by an alias of the right plug's export
            let sock_inst = g.node_ids().find(|n| matches!(g[*n].kind(), NodeKind::Instantiation(_)) && g[*n].package() == Some(sid)).expect("socket instantiation");
            let mut wired: BTreeMap<String, (usize, String)> = BTreeMap::new();
            for (name, src) in g.get_instantiation_arguments(sock_inst) {
                let (owner, export) = g.get_alias_source(src).expect("argument is an alias of a plug export");
                let pos = plug_ids.iter().position(|p| g[owner].package() == Some(*p)).expect("owner is a plug instance");
                wired.insert(name.to_string(), (pos, export.to_string()));
            }
            let exp: BTreeMap<String, (usize, String)> = supplied.iter().map(|(k, (p, e))| (k.to_string(), (*p, e.to_string()))).collect();
            if wired != exp { println!("C10-BOUNDED VIOLATION: socket arguments {:?}, the property gives {:?}: {}", wired, exp, show()); std::process::exit(1); }
            // a plug contributing nothing is not instantiated
            for (pos, pid) in plug_ids.iter().enumerate() {
                let n = g.node_ids().filter(|n| matches!(g[*n].kind(), NodeKind::Instantiation(_)) && g[*n].package() == Some(*pid)).count();
                let want = if contributing.contains(&pos) { 1 } else { 0 };
                if n != want { println!("C10-BOUNDED VIOLATION: plug #{pos} is instantiated {n} times, expected {want}: {}", show()); std::process::exit(1); }
            }
            // encodes to a valid component with the remaining imports and the socket's exports
            let bytes = match g.encode(EncodeOptions::default()) { Ok(b) => b, Err(e) => { println!("C10-BOUNDED VIOLATION: the plugged graph does not encode ({e:#}): {}", show()); std::process::exit(1); } };
            let mut types = Types::default();
            let out = Package::from_bytes("out", None, bytes, &mut types).unwrap();
            let world = &types[out.ty()];
            let got_imports: BTreeSet<String> = world.imports.keys().cloned().collect();
            let want_imports: BTreeSet<String> = SOCKET_IMPORTS.iter().enumerate().filter(|(i, n)| smask & (1 << i) != 0 && !supplied.contains_key(*n)).map(|(_, n)| n.to_string()).collect();
            // implicit imports on one semver track are shared under the highest version (C03/C09/C15)
            let mut want_imports = want_imports;
            if want_imports.contains("a:b/c@0.2.0") && want_imports.contains("a:b/c@0.2.1") { want_imports.remove("a:b/c@0.2.0"); }
            if got_imports != want_imports { println!("C10-BOUNDED VIOLATION: result imports {:?}, expected the unsupplied socket imports {:?}: {}", got_imports, want_imports, show()); std::process::exit(1); }
            let got_exports: BTreeSet<String> = world.exports.keys().cloned().collect();
            let mut want_exports: BTreeSet<String> = ["run".to_string()].into_iter().collect();
            if extra { want_exports.insert("extra".to_string()); }
            if got_exports != want_exports { println!("C10-BOUNDED VIOLATION: result exports {:?}, the socket exports {:?}: {}", got_exports, want_exports, show()); std::process::exit(1); }
            if samples.len() < 3 && cases % 97 == 5 { samples.push(format!("{} => {:?}", show(), wired)); }
        }
    } }
    if samples.is_empty() { samples.push("(see the program text for the universe)".to_string()); }
    println!("C10-PLUG ok {{\"bounded\": true, \"max_plugs\": {maxp}, \"evaluations\": {cases}, \"distinct_nontrivial\": {}, \"plugged\": {ok}, \"no_plug_happened\": {noplug}, \"conflicting_plugs_rejected\": {conflict}, \"samples\": {:?}}}", nontrivial.len(), samples);
}
