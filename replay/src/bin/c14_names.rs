//! BOUNDED search for resolver panics on name clashes (C14 "resolving any parsed document ... never panics"): every ordered
//! pair of items that introduce the SAME name in an interface body, a world body or at the top level is resolved under
//! catch_unwind.  A clash must be diagnosed (or be legal), never panic.  The panic class recorded in known_findings.json
//! (`duplicate type in scope` / the resource_decl assert) is printed as FINDING; any other panic is a VIOLATION.
//! Exit 0 = no panic, 3 = only the recorded class, 1 = another panic.
use std::panic::{catch_unwind, AssertUnwindSafe};
use wac_parser::Document;
thread_local! { static LAST_PANIC: std::cell::RefCell<String> = std::cell::RefCell::new(String::new()); }
fn main() {
    std::panic::set_hook(Box::new(|info| { LAST_PANIC.with(|l| *l.borrow_mut() = info.to_string()); }));
    let iface_items = ["f: func();", "record f { x: u32 }", "resource f { }", "resource f { constructor(); f: func(); }", "type f = u8;", "enum f { a }", "variant f { a }", "flags f { a }", "use other.{t as f};", "use other.{f};", "f: ft;"];
    let world_items = ["import f: func();", "export f: func();", "import f: interface { };", "export f: interface { f: func(); };", "record f { x: u32 }", "resource f { }", "type f = u8;", "use other.{t as f};", "import other;", "export other;", "include w0;", "include w0 with { f as g };", "import f: ft;"];
    let top_items = ["import f: func();", "interface f { }", "world f { }", "type f = u8;", "record f { x: u32 }", "let f = new a:b { ... };", "import g as \"f\": func();", "export f;", "export f as f;", "interface other2 { f: func(); }"];
    let prelude = "package test:comp;\ninterface other { type t = u32; type f = u16; }\ntype ft = func();\nworld w0 { import f: func(); export g: func(); }\n";
    let (mut docs, mut known, mut errors, mut oks) = (0u64, 0u64, 0u64, 0u64);
    let mut first_known: Option<String> = None;
    let mut run = |src: String| {
        let doc = match Document::parse(&src) { Ok(d) => d, Err(e) => { println!("C14-NAMES generator produced an unparsable document: {e}\n{src}"); std::process::exit(2); } };
        docs += 1;
        match catch_unwind(AssertUnwindSafe(|| doc.resolve(Default::default()).is_ok())) {
            Ok(true) => oks += 1,
            Ok(false) => errors += 1,
            Err(_) => {
                let msg = LAST_PANIC.with(|l| l.borrow().clone());
                if msg.contains("duplicate type in scope") || (msg.contains("resolution.rs") && msg.contains("prev.is_none()")) { known += 1; if first_known.is_none() { first_known = Some(src.replace('\n', " ")); } }
                else { println!("C14-BOUNDED VIOLATION: Document::resolve PANICKED ({msg}) on:\n{src}"); std::process::exit(1); }
            }
        }
    };
    for a in iface_items { for b in iface_items {
        run(format!("{prelude}interface i {{ {a} {b} }}\n"));
        run(format!("{prelude}import x: interface {{ {a} {b} }};\n"));
        run(format!("{prelude}world w {{ import x: interface {{ {a} {b} }}; }}\n"));
    } }
    for a in world_items { for b in world_items { run(format!("{prelude}world w {{ {a} {b} }}\n")); } }
    for a in top_items { for b in top_items { run(format!("{prelude}{a}\n{b}\n")); } }
    if let Some(f) = &first_known { println!("FINDING resolve-panic-function-and-type-of-one-name {known} documents, e.g. {f}"); }
    println!("C14-NAMES {} {{\"bounded\": true, \"documents\": {docs}, \"resolved\": {oks}, \"diagnosed\": {errors}, \"recorded_panic_class\": {known}}}", if known > 0 { "findings" } else { "ok" });
    std::process::exit(if known > 0 { 3 } else { 0 });
}
