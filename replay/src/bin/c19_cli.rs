//! BOUNDED check of C19 ("the CLI does what the library does with the flags as documented").  The commands are async
//! clap / tokio `exec` functions doing process-level I/O: outside Verus and Kani, so no contract is discharged; the
//! stand-in runs the REAL `wac` binary (built from /repo's working tree by bin/c19_cli) and compares with the library
//! pipeline executed in this process:
//!   compose: every subset of { --import-dependencies, --no-validate, -t, -o FILE } on documents that succeed and that fail
//!            at the parse, discovery (unknown package is not used: it would reach for the registry), resolution, encoding
//!            and validation stages; `--deps-dir` and `--dep name=path` select packages as documented;
//!            exit code 0 exactly when the pipeline succeeds; stdout / FILE hold exactly the library's bytes; with -t the
//!            text assembles to a valid component with identical imports / exports / instantiations; on failure a
//!            diagnostic is printed and no output file is written;
//!   parse:   prints the JSON of the library's AST;   plug: the library's plug() + encode;   targets: the library's verdict.
//! Exit 0 = agreement, 1 = a disagreeing invocation is printed.   usage: c19_cli <path-to-wac-binary>
use indexmap::IndexMap;
use std::{fs, path::{Path, PathBuf}, process::Command};
use wac_graph::{CompositionGraph, EncodeOptions};
use wac_parser::Document;
use wac_resolver::{packages, FileSystemPackageResolver};
use wac_types::{Package, Types};

fn comp(imports: &[&str], exports: &[&str]) -> Vec<u8> {
    let mut s = String::from("(component\n");
    for n in imports { s.push_str(&format!("  (import \"{n}\" (func))\n")); }
    s.push_str("  (core module $m (func (export \"f\")))\n  (core instance $i (instantiate $m))\n  (func $f (canon lift (core func $i \"f\")))\n");
    for e in exports { s.push_str(&format!("  (export \"{e}\" (func $f))\n")); }
    s.push(')');
    wat::parse_str(&s).unwrap()
}

fn library(src: &str, deps: &Path, overrides: &[(String, PathBuf)], import_deps: bool, no_validate: bool) -> Result<Vec<u8>, String> {
    let doc = Document::parse(src).map_err(|e| format!("parse: {e}"))?;
    let keys = packages(&doc).map_err(|e| format!("discovery: {e}"))?;
    let fs = FileSystemPackageResolver::new(deps, overrides.iter().cloned().collect(), false);
    let pk: IndexMap<_, _> = fs.resolve(&keys).map_err(|e| format!("fs: {e}"))?;
    if let Some((k, _)) = keys.iter().find(|(k, _)| !pk.contains_key(*k)) { return Err(format!("unknown package {k}")); }
    let res = doc.resolve(pk).map_err(|e| format!("resolve: {e}"))?;
    res.encode(EncodeOptions { define_components: !import_deps, validate: !no_validate, processor: None }).map_err(|e| format!("encode: {e}"))
}

fn interface(bytes: &[u8]) -> Result<(Vec<String>, Vec<String>, usize), String> {
    let mut t = Types::default();
    let p = Package::from_bytes("x", None, bytes.to_vec(), &mut t).map_err(|e| format!("{e:#}"))?;
    let mut inst = 0; let mut depth = 0;
    for pl in wasmparser::Parser::new(0).parse_all(bytes) { match pl.map_err(|e| e.to_string())? { wasmparser::Payload::ComponentSection { .. } | wasmparser::Payload::ModuleSection { .. } => depth += 1, wasmparser::Payload::End(_) => depth -= 1, wasmparser::Payload::ComponentInstanceSection(r) if depth == 0 => inst += r.count() as usize, _ => {} } }
    Ok((t[p.ty()].imports.keys().cloned().collect(), t[p.ty()].exports.keys().cloned().collect(), inst))
}

fn main() {
    let wac = std::env::args().nth(1).expect("usage: c19_cli <path-to-wac-binary>");
    let root = std::env::temp_dir().join(format!("c19_cli_{}", std::process::id()));
    let _ = fs::remove_dir_all(&root);
    let deps = root.join("deps"); let alt = root.join("altdeps");
    fs::create_dir_all(deps.join("t")).unwrap(); fs::create_dir_all(alt.join("t")).unwrap();
    fs::write(deps.join("t/k.wasm"), comp(&["a", "b"], &["f", "g"])).unwrap();
    fs::write(deps.join("t/l.wasm"), comp(&["a"], &["h"])).unwrap();
    fs::write(alt.join("t/k.wasm"), comp(&["z"], &["f", "g"])).unwrap();            // another t:k, importing `z`
    fs::write(root.join("override-l.wasm"), comp(&["q"], &["h"])).unwrap();           // an override for t:l, importing `q`
    let docs: Vec<(&str, &str)> = vec![
        ("good", "package test:doc;\nlet k = new t:k { ... };\nlet l = new t:l { a: k.f };\nexport l.h;\nexport k.g as other;\n"),
        ("parse-error", "package test:doc;\nlet k = new t:k { ... }\n"),
        ("resolve-error", "package test:doc;\nlet k = new t:k { a: nope, ... };\n"),
        ("encode-error", "package test:doc;\nimport a: func(x: u8);\nlet k = new t:k { ... };\n"),
        ("types-only", "package test:doc;\ninterface i { type t = u8; f: func() -> t; }\n"),
    ];
    let (mut runs, mut ok_runs) = (0u64, 0u64);
    let mut samples = vec![];
    // "-o writes exactly the bytes otherwise sent to stdout": stdout of the run without -o, per (document, other flags, selection)
    let mut stdout_of: std::collections::HashMap<(String, u32, usize), Vec<u8>> = std::collections::HashMap::new();
    let (mut newline_findings, mut first_newline): (u64, Option<String>) = (0, None);
    let fail = |msg: String| -> ! { println!("C19-BOUNDED VIOLATION: {msg}"); std::process::exit(1) };
    for (dname, src) in &docs {
        let path = root.join(format!("{dname}.wac"));
        fs::write(&path, src).unwrap();
        for mask in 0u32..16 { for sel in 0..3 {
            let (import_deps, no_validate, wat_out, to_file) = (mask & 1 != 0, mask & 2 != 0, mask & 4 != 0, mask & 8 != 0);
            // package selection: 0 = --deps-dir deps, 1 = --deps-dir altdeps (another t:k, no t:l -> l would be unknown: only for docs without l), 2 = --dep t:l=override
            if sel == 1 && src.contains("t:l") { continue; }
            if sel != 0 && (mask & 3 != 0) { continue; }
            let (dir, overrides): (&Path, Vec<(String, PathBuf)>) = match sel { 0 => (&deps, vec![]), 1 => (&alt, vec![]), _ => (&deps, vec![("t:l".to_string(), root.join("override-l.wasm"))]) };
            let want = library(src, dir, &overrides, import_deps, no_validate);
            let out = root.join("out.bin"); let _ = fs::remove_file(&out);
            let mut cmd = Command::new(&wac);
            cmd.arg("compose").arg("--deps-dir").arg(dir);
            for (n, p) in &overrides { cmd.arg("--dep").arg(format!("{n}={}", p.display())); }
            if import_deps { cmd.arg("--import-dependencies"); }
            if no_validate { cmd.arg("--no-validate"); }
            if wat_out { cmd.arg("-t"); }
            if to_file { cmd.arg("-o").arg(&out); }
            cmd.arg(&path).current_dir(&root);
            let o = cmd.output().expect("run wac");
            runs += 1;
            let inv = format!("wac compose {dname}.wac [import-deps={import_deps} no-validate={no_validate} -t={wat_out} -o={to_file} selection={sel}]");
            match &want {
                Err(stage) => {
                    if o.status.success() { fail(format!("{inv}: the library pipeline fails ({stage}) but the process exited 0")); }
                    if o.stderr.is_empty() { fail(format!("{inv}: the process failed without printing a diagnostic")); }
                    if out.exists() { fail(format!("{inv}: the process failed but wrote an output file")); }
                }
                Ok(bytes) => {
                    if !o.status.success() { fail(format!("{inv}: the library pipeline succeeds but the process exited {:?}: {}", o.status.code(), String::from_utf8_lossy(&o.stderr).chars().take(300).collect::<String>())); }
                    ok_runs += 1;
                    if !to_file { stdout_of.insert((dname.to_string(), mask & 7, sel), o.stdout.clone()); }
                    else if let (Some(so), Ok(fb)) = (stdout_of.get(&(dname.to_string(), mask & 7, sel)), fs::read(&out)) {
                        if *so != fb {
                            // recorded finding: with -t the text on stdout ends with a newline that the -o file does not have
                            let mut with_nl = fb.clone(); with_nl.push(b'\n');
                            if wat_out && *so == with_nl { newline_findings += 1; if first_newline.is_none() { first_newline = Some(format!("{inv}: stdout has {} bytes, the -o file {}", so.len(), fb.len())); } }
                            else { fail(format!("{inv}: the -o file ({} bytes) is not what is sent to stdout without -o ({} bytes)", fb.len(), so.len())); }
                        }
                    }
                    let produced = if to_file { if !o.stdout.is_empty() { fail(format!("{inv}: -o given but stdout is not empty")); } fs::read(&out).unwrap_or_else(|_| fail(format!("{inv}: -o given but no file was written"))) } else { o.stdout.clone() };
                    if !wat_out {
                        if &produced != bytes { fail(format!("{inv}: the bytes written ({} bytes) differ from the library's ({} bytes)", produced.len(), bytes.len())); }
                    } else {
                        let text = String::from_utf8(produced).unwrap_or_else(|_| fail(format!("{inv}: -t output is not text")));
                        let asm = wat::parse_str(&text).unwrap_or_else(|e| fail(format!("{inv}: the -t text does not assemble: {e}")));
                        if !no_validate { if let Err(e) = wasmparser::Validator::new_with_features(wasmparser::WasmFeatures::all()).validate_all(&asm) { fail(format!("{inv}: the assembled -t text is not a valid component: {e}")); } }
                        let (a, b) = (interface(&asm), interface(bytes));
                        if a != b { fail(format!("{inv}: the -t text assembles to a component with interface / instantiation count {:?}, the library's component has {:?}", a, b)); }
                    }
                    if samples.len() < 2 && mask == 5 { samples.push(format!("{inv}: exit 0, {} bytes agree", bytes.len())); }
                }
            }
        } }
    }
    // ---- parse
    for (dname, src) in &docs {
        let o = Command::new(&wac).arg("parse").arg(root.join(format!("{dname}.wac"))).output().unwrap();
        runs += 1;
        match Document::parse(src) {
            Ok(d) => {
                if !o.status.success() { fail(format!("wac parse {dname}.wac: the library parses the text but the process exited {:?}", o.status.code())); }
                let got: serde_json::Value = serde_json::from_slice(&o.stdout).unwrap_or_else(|e| fail(format!("wac parse {dname}.wac: stdout is not JSON ({e})")));
                if got != serde_json::to_value(&d).unwrap() { fail(format!("wac parse {dname}.wac: the printed JSON differs from the library's AST")); }
                ok_runs += 1;
            }
            Err(_) => if o.status.success() { fail(format!("wac parse {dname}.wac: the library rejects the text but the process exited 0")); },
        }
    }
    // ---- plug
    let socket = comp(&["a", "b"], &["f"]); let plug_a = comp(&[], &["a"]); let plug_none = comp(&[], &["zzz"]);
    fs::write(root.join("socket.wasm"), &socket).unwrap(); fs::write(root.join("plug-a.wasm"), &plug_a).unwrap(); fs::write(root.join("plug-none.wasm"), &plug_none).unwrap();
    for (plugs, label) in [(vec!["plug-a.wasm"], "one matching plug"), (vec!["plug-none.wasm"], "no matching plug"), (vec!["plug-a.wasm", "plug-none.wasm"], "two plugs")] {
        let mut g = CompositionGraph::new();
        let mut ids = vec![];
        for (i, p) in plugs.iter().enumerate() { let pk = Package::from_bytes(&format!("plug{i}"), None, fs::read(root.join(p)).unwrap(), g.types_mut()).unwrap(); ids.push(g.register_package(pk).unwrap()); }
        let sk = Package::from_bytes("socket", None, socket.clone(), g.types_mut()).unwrap(); let sid = g.register_package(sk).unwrap();
        let want = wac_graph::plug(&mut g, ids, sid).map_err(|e| e.to_string()).and_then(|_| g.encode(EncodeOptions::default()).map_err(|e| e.to_string()));
        let mut cmd = Command::new(&wac); cmd.arg("plug"); for p in &plugs { cmd.arg("--plug").arg(root.join(p)); } cmd.arg(root.join("socket.wasm")).current_dir(&root);
        let o = cmd.output().unwrap(); runs += 1;
        match want {
            Ok(bytes) => { if !o.status.success() { fail(format!("wac plug ({label}): the library succeeds, the process exited {:?}: {}", o.status.code(), String::from_utf8_lossy(&o.stderr).chars().take(300).collect::<String>())); } if interface(&o.stdout) != interface(&bytes) { fail(format!("wac plug ({label}): output interface {:?}, the library's {:?}", interface(&o.stdout), interface(&bytes))); } ok_runs += 1; }
            Err(e) => if o.status.success() { fail(format!("wac plug ({label}): the library fails ({e}), the process exited 0")); },
        }
    }
    // ---- plug with several contributing plugs: the same command line gives the same bytes in every (fresh) process, and
    //      they are the bytes of the library pipeline with the plugs in command-line order
    let plug_b = comp(&[], &["b"]);
    fs::write(root.join("plug-b.wasm"), &plug_b).unwrap();
    // (two DIFFERENT files with the same file stem are two plugs)
    fs::create_dir_all(root.join("d1")).unwrap(); fs::create_dir_all(root.join("d2")).unwrap();
    fs::write(root.join("d1/p.wasm"), &plug_a).unwrap(); fs::write(root.join("d2/p.wasm"), &plug_b).unwrap();
    for plugs in [vec!["plug-a.wasm", "plug-b.wasm"], vec!["plug-b.wasm", "plug-a.wasm"], vec!["plug-b.wasm", "plug-none.wasm", "plug-a.wasm"], vec!["d1/p.wasm", "d2/p.wasm"], vec!["d2/p.wasm", "d1/p.wasm"]] {
        let mut g = CompositionGraph::new();
        let mut ids = vec![];
        let stems: Vec<&str> = plugs.iter().map(|p| p.rsplit('/').next().unwrap().trim_end_matches(".wasm")).collect();
        for (k, p) in plugs.iter().enumerate() {
            // the command names a plug `plug:<stem>`, with its position among the plugs of that stem appended when there are several
            let same: Vec<usize> = (0..plugs.len()).filter(|j| stems[*j] == stems[k]).collect();
            let name = if same.len() > 1 { format!("plug:{}{}", stems[k], same.iter().position(|j| *j == k).unwrap()) } else { format!("plug:{}", stems[k]) };
            let pk = Package::from_bytes(&name, None, fs::read(root.join(p)).unwrap(), g.types_mut()).unwrap(); ids.push(g.register_package(pk).unwrap());
        }
        let sk = Package::from_bytes("socket", None, socket.clone(), g.types_mut()).unwrap(); let sid = g.register_package(sk).unwrap();
        wac_graph::plug(&mut g, ids, sid).unwrap();
        let want = g.encode(EncodeOptions::default()).unwrap();
        let mut outs: Vec<Vec<u8>> = vec![];
        for _ in 0..8 {
            let mut cmd = Command::new(&wac); cmd.arg("plug"); for p in &plugs { cmd.arg("--plug").arg(root.join(p)); } cmd.arg(root.join("socket.wasm")).current_dir(&root);
            let o = cmd.output().unwrap(); runs += 1;
            if !o.status.success() { fail(format!("wac plug {:?}: the library succeeds, the process exited {:?}: {}", plugs, o.status.code(), String::from_utf8_lossy(&o.stderr).chars().take(300).collect::<String>())); }
            outs.push(o.stdout);
        }
        let distinct: std::collections::BTreeSet<&Vec<u8>> = outs.iter().collect();
        if distinct.len() != 1 { fail(format!("wac plug {:?}: 8 runs of the same command line produced {} different outputs (sizes {:?})", plugs, distinct.len(), outs.iter().map(|o| o.len()).collect::<Vec<_>>())); }
        if interface(&outs[0]) != interface(&want) { fail(format!("wac plug {:?}: output interface {:?}, the library's {:?}", plugs, interface(&outs[0]), interface(&want))); }
        if outs[0] != want { fail(format!("wac plug {:?}: the output ({} bytes) is not the library pipeline's output for the plugs in command-line order ({} bytes)", plugs, outs[0].len(), want.len())); }
    }
    // ---- targets
    fs::write(root.join("world.wit"), "package test:w;\nworld w { import a: func(); import b: func(); export f: func(); }\n").unwrap();
    for (cfile, bytes, label) in [("conforms.wasm", comp(&["a"], &["f"]), "conforming"), ("extra-import.wasm", comp(&["a", "zzz"], &["f"]), "extra import"), ("missing-export.wasm", comp(&["a"], &["g"]), "missing export")] {
        fs::write(root.join(cfile), &bytes).unwrap();
        let mut types = Types::default();
        let mut resolve = wit_parser::Resolve::new(); let pkg = resolve.push_str("world.wit", &fs::read_to_string(root.join("world.wit")).unwrap()).unwrap();
        let witb = wit_component::encode(&resolve, pkg).unwrap();
        let wp = Package::from_bytes("wit", None, witb, &mut types).unwrap();
        let cp = Package::from_bytes("c", None, bytes.clone(), &mut types).unwrap();
        let wid = match types[wp.ty()].exports["w"] { wac_types::ItemKind::Type(wac_types::Type::World(w)) => match types[w].exports.values().next() { Some(wac_types::ItemKind::Component(c)) => *c, _ => panic!("wit encoding") }, _ => panic!("wit encoding") };
        let want = wac_types::validate_target(&types, wid, cp.ty()).is_ok();
        let o = Command::new(&wac).arg("targets").arg("--wit").arg(root.join("world.wit")).arg(root.join(cfile)).current_dir(&root).output().unwrap();
        runs += 1;
        if o.status.success() != want { fail(format!("wac targets ({label}): the library says conforms = {want}, the process exited {:?}: {}", o.status.code(), String::from_utf8_lossy(&o.stderr).chars().take(300).collect::<String>())); }
        if want { ok_runs += 1; }
    }
    let _ = fs::remove_dir_all(&root);
    if samples.is_empty() { samples.push("(none)".into()); }
    if let Some(f) = &first_newline { println!("FINDING t-stdout-trailing-newline {newline_findings} invocations, e.g. {f}"); }
    println!("C19-CLI {} {{\"bounded\": true, \"evaluations\": {runs}, \"distinct_nontrivial\": {ok_runs}, \"samples\": {:?}}}", if newline_findings > 0 { "findings" } else { "ok" }, samples);
    if newline_findings > 0 { std::process::exit(3); }
}
