//! BOUNDED robustness check for C14 beyond the lexer functions proved in unit U6 (the parser productions, the resolver and
//! the package decoder are macro-, closure- and wasmparser-driven code outside Verus's dialect): "parsing any text,
//! resolving any parsed document against any set of package byte strings, decoding any byte string as a package ...
//! never panic, abort, overflow the stack or loop forever; every source location carried by a diagnostic lies within the
//! source, on character boundaries, and the diagnostic can be rendered".
//!   1. texts: the repository's .wac files and a few seed documents, each mutated N times at byte / character / token level
//!      (insert, delete, replace, duplicate a span, truncate, multi-byte characters) -> Document::parse under
//!      catch_unwind; error labels inside the source on char boundaries; the diagnostic is rendered with miette's
//!      graphical handler;
//!   2. parsed documents are resolved against missing / corrupted / wrong packages under catch_unwind, same label checks;
//!   3. package byte strings: valid components (WAT shapes), their truncations, single-byte mutations and random bytes
//!      -> Package::from_bytes under catch_unwind;
//!   4. deeply nested texts (parentheses, `list<..>`, nested `new`, nested block comments) in CHILD processes (a stack
//!      overflow aborts the process): an abort is printed as `FINDING stack-overflow-<kind>`.
//! Exit 0 = nothing found, 3 = only FINDING lines, 1 = violation.   usage: c14_robust [mutations_per_text] [seed]
use indexmap::IndexMap;
use miette::Diagnostic;
use std::panic::{catch_unwind, AssertUnwindSafe};
use wac_parser::Document;
use wac_types::{BorrowedPackageKey, Package, Types};

thread_local! { static LAST_PANIC: std::cell::RefCell<String> = std::cell::RefCell::new(String::new()); }

struct Rng(u64);
impl Rng {
    fn next(&mut self) -> u64 { self.0 = self.0.wrapping_mul(6364136223846793005).wrapping_add(1442695040888963407); self.0 >> 33 }
    fn below(&mut self, n: usize) -> usize { if n == 0 { 0 } else { (self.next() % n as u64) as usize } }
}

fn labels_ok<E: Diagnostic>(e: &E, src: &str) -> Result<(), String> {
    if let Some(labels) = e.labels() {
        for l in labels {
            let (o, n) = (l.offset(), l.len());
            if o + n > src.len() || !src.is_char_boundary(o) || !src.is_char_boundary(o + n) { return Err(format!("label at offset {o} length {n} is outside the source (length {}) or off a character boundary", src.len())); }
        }
    }
    Ok(())
}
fn render<E: Diagnostic + Send + Sync + 'static>(e: E, src: &str) -> Result<(), String> {
    let report = miette::Report::new(e).with_source_code(src.to_string());
    let mut out = String::new();
    match catch_unwind(AssertUnwindSafe(|| miette::GraphicalReportHandler::new_themed(miette::GraphicalTheme::unicode_nocolor()).render_report(&mut out, report.as_ref()))) {
        Ok(Ok(())) => Ok(()), Ok(Err(_)) => Err("rendering the diagnostic failed".into()), Err(_) => Err("rendering the diagnostic panicked".into()),
    }
}

fn mutate(src: &str, r: &mut Rng) -> String {
    let chars: Vec<char> = src.chars().collect();
    let mut c = chars.clone();
    let pool = ['(', ')', '{', '}', '<', '>', '"', '/', '*', '%', ':', ';', ',', '.', '@', '-', '_', ' ', '\n', 'a', 'Z', '0', 'é', '日', '\u{1F600}', '\t', '\\', '=', '[', ']'];
    for _ in 0..1 + r.below(3) {
        if c.is_empty() { c.push(pool[r.below(pool.len())]); continue; }
        let i = r.below(c.len());
        match r.below(7) {
            0 => { c.insert(i, pool[r.below(pool.len())]); }
            1 => { c.remove(i); }
            2 => { c[i] = pool[r.below(pool.len())]; }
            3 => { let j = (i + 1 + r.below(8)).min(c.len()); let seg: Vec<char> = c[i..j].to_vec(); for (k, ch) in seg.into_iter().enumerate() { c.insert(j + k, ch); } }
            4 => { c.truncate(i); }
            5 => { let j = r.below(c.len()); c.swap(i, j); }
            _ => { let words = ["/*", "*/", "//", "...", "->", "new", "interface", "\"", "targets", "@1.0.0", "%"]; let w: Vec<char> = words[r.below(words.len())].chars().collect(); for (k, ch) in w.into_iter().enumerate() { c.insert((i + k).min(c.len()), ch); } }
        }
    }
    c.into_iter().collect()
}

fn wac_files(dir: &std::path::Path, out: &mut Vec<std::path::PathBuf>) {
    if let Ok(rd) = std::fs::read_dir(dir) {
        for e in rd.flatten() {
            let p = e.path();
            if p.is_dir() { if p.file_name().map(|n| n != "target" && n != ".git").unwrap_or(true) { wac_files(&p, out); } }
            else if p.extension().map(|x| x == "wac").unwrap_or(false) { out.push(p); }
        }
    }
}

fn component(k: usize) -> Vec<u8> {
    let w = [
        r#"(component (import "a:b/c@0.2.0" (instance (export "f" (func)))) (import "x" (func (param "p" u8) (result string))))"#,
        r#"(component (core module $m (func (export "f"))) (core instance $i (instantiate $m)) (func $f (canon lift (core func $i "f"))) (export "f" (func $f)))"#,
        r#"(component (type $r (record (field "a" u8) (field "b" (list string)))) (import "t" (type (eq $r))) (import "r" (type $res (sub resource))) (import "m" (func (param "x" (borrow $res)))))"#,
        r#"(component (import "w" (component (import "i" (func)) (export "e" (instance (export "g" (func)))))) (import "mod" (core module (import "a" "b" (func)) (export "c" (func)))))"#,
        // a sub-component that embeds a core module and has exports after it (the usual shape of an already composed component)
        r#"(component (component $inner (core module $m (func (export "f"))) (core instance $i (instantiate $m)) (func $f (canon lift (core func $i "f"))) (export "inner-only" (func $f))) (instance $x (instantiate $inner)) (alias export $x "inner-only" (func $g)) (export "outer" (func $g)))"#,
    ];
    wat::parse_str(w[k % w.len()]).unwrap()
}

fn child_depth(kind: &str, depth: usize) {
    let src = match kind {
        "parens" => format!("package a:b;\nlet x = {}y{};\n", "(".repeat(depth), ")".repeat(depth)),
        "list-type" => format!("package a:b;\ntype t = {}u8{};\n", "list<".repeat(depth), ">".repeat(depth)),
        "nested-new" => format!("package a:b;\nlet x = {}y{};\n", "new c:d { a: ".repeat(depth), " }".repeat(depth)),
        _ => format!("package a:b;\n{}{}\n", "/*".repeat(depth), "*/".repeat(depth)),
    };
    let _ = Document::parse(&src);
    println!("survived");
}

fn main() {
    let args: Vec<String> = std::env::args().collect();
    if args.get(1).map(|s| s == "--depth").unwrap_or(false) { child_depth(&args[2], args[3].parse().unwrap()); return; }
    let per: usize = args.get(1).and_then(|s| s.parse().ok()).unwrap_or(40);
    let seed: u64 = args.get(2).and_then(|s| s.parse().ok()).unwrap_or(0);
    let mut r = Rng(seed.wrapping_mul(2654435761).wrapping_add(99));
    std::panic::set_hook(Box::new(|info| { LAST_PANIC.with(|l| *l.borrow_mut() = info.to_string()); }));
    let mut seeds: Vec<String> = vec![
        "package a:b targets c:d/w@1.0.0;\nimport x as \"s\": func(a: u8) -> string;\nlet i = new c:d { x, \"y\": (z).w[\"q\"], ...v, ... };\nexport i.f as g;\n".into(),
        "package a:b;\n/// doc é\ninterface i { use a:b/c@1.0.0.{t as u}; resource r { constructor(a: borrow<r>); m: static func() -> result<_, u8>; } record q { a: tuple<u8, list<option<string>>> } }\nworld w { include a:b/w with { a as b }; import n: interface { f: func(); }; export c:d/e; }\n".into(),
        "package a:b; /* c /* nested é */ */ let x = new e:f@0.2.1-rc.1+b {}; // tail 日本".into(),
        // regression texts (known_findings.json, fixed): resolution once panicked on a name ending in `-`
        "package test:comp;\n\ntype x = u32;\ntype x- = string;".into(),
        "package test:comp;\ninterface i- { }\nlet a- = new c:d- { };\nexport a- as b-;\n".into(),
    ];
    let mut files = vec![]; wac_files(std::path::Path::new("/repo"), &mut files); files.sort();
    for f in files.iter() { if let Ok(s) = std::fs::read_to_string(f) { if s.len() < 4000 { seeds.push(s); } } }
    let (mut texts, mut parsed, mut rejected, mut resolved, mut resolve_errors) = (0u64, 0u64, 0u64, 0u64, 0u64);
    let mut known_panic_hits = 0u64;
    let pkgs: Vec<Vec<u8>> = (0..4).map(component).collect();
    for (si, s) in seeds.iter().enumerate() {
        for m in 0..per {
            let src = if m == 0 { s.clone() } else { mutate(s, &mut r) };
            texts += 1;
            let res = catch_unwind(AssertUnwindSafe(|| Document::parse(&src).map(|_| ()).map_err(|e| { let l = labels_ok(&e, &src); (l, render(e, &src)) })));
            match res {
                Err(_) => { println!("C14-BOUNDED VIOLATION: Document::parse PANICKED on (seed text #{si}, mutation {m}): {src:?}"); std::process::exit(1); }
                Ok(Ok(())) => parsed += 1,
                Ok(Err((l, rn))) => { rejected += 1; if let Err(e) = l.and(rn) { println!("C14-BOUNDED VIOLATION: {e}; text: {src:?}"); std::process::exit(1); } }
            }
            // resolution of accepted documents against missing / wrong / corrupted packages
            if let Ok(doc) = Document::parse(&src) {
                for variant in 0..3 {
                    let keys = match catch_unwind(AssertUnwindSafe(|| wac_resolver::packages(&doc))) { Ok(Ok(k)) => k, Ok(Err(_)) => break, Err(_) => { println!("C14-BOUNDED VIOLATION: package discovery PANICKED on {src:?}"); std::process::exit(1); } };
                    let mut packages: IndexMap<BorrowedPackageKey, Vec<u8>> = IndexMap::new();
                    for (i, (k, _)) in keys.iter().enumerate() {
                        match variant { 0 => {}, 1 => { packages.insert(*k, pkgs[(i + m) % 4].clone()); } _ => { let mut b = pkgs[i % 4].clone(); let n = b.len(); if n > 0 { let j = r.below(n); b[j] ^= 1 << r.below(8); b.truncate(n - r.below(n.min(5))); } packages.insert(*k, b); } }
                    }
                    let rr = catch_unwind(AssertUnwindSafe(|| doc.resolve(packages).map(|_| ()).map_err(|e| { let l = labels_ok(&e, &src); (l, render(e, &src)) })));
                    match rr {
                        Err(_) => {
                            let msg = LAST_PANIC.with(|l| l.borrow().clone());
                            // the recorded, unrepaired defect (a function and a type of one name): counted, reported below as FINDING
                            if msg.contains("duplicate type in scope") || (msg.contains("resolution.rs") && msg.contains("prev.is_none()")) { known_panic_hits += 1; continue; }
                            println!("C14-BOUNDED VIOLATION: Document::resolve PANICKED ({msg}; package variant {variant}) on {src:?}"); std::process::exit(1);
                        }
                        Ok(Ok(())) => resolved += 1,
                        Ok(Err((l, rn))) => { resolve_errors += 1; if let Err(e) = l.and(rn) { println!("C14-BOUNDED VIOLATION: resolution diagnostic: {e}; text: {src:?}"); std::process::exit(1); } }
                    }
                }
            }
        }
    }
    // package decoding
    let (mut blobs, mut decoded) = (0u64, 0u64);
    // regression corpus: byte strings on which a decoder defect was once found (known_findings.json, fixed)
    let corpus: [&[u8]; 1] = [&[0, 97, 115, 109, 13, 0, 1, 0, 7, 34, 1, 65, 4, 1, 64, 0, 1, 0, 4, 0, 1, 105, 1, 0, 1, 66, 2, 1, 64, 0, 1, 0, 4, 0, 1, 103, 1, 0, 4, 0, 1, 101, 5, 1, 10, 6, 1, 0, 1, 119, 4, 0, 3, 23, 1, 80, 4, 1, 96, 0, 0, 0, 1, 97, 1, 98, 0, 0, 1, 96, 0, 0, 3, 1, 99, 32, 1, 10, 9, 1, 0, 3, 109, 111, 100, 0, 17, 0]];
    for b in corpus {
        blobs += 1;
        if catch_unwind(AssertUnwindSafe(|| { let mut t = Types::default(); Package::from_bytes("x:y", None, b.to_vec(), &mut t).is_ok() })).is_err() {
            println!("C14-BOUNDED VIOLATION: Package::from_bytes PANICKED on the regression byte string {:?}", b); std::process::exit(1);
        }
    }
    for k in 0..5 {
        let good = component(k);
        blobs += 1;
        match catch_unwind(AssertUnwindSafe(|| { let mut t = Types::default(); Package::from_bytes("x:y", None, good.clone(), &mut t).is_ok() })) {
            Ok(true) => decoded += 1,
            Ok(false) => { println!("C14-BOUNDED VIOLATION: Package::from_bytes rejects the valid component #{k} of the corpus"); std::process::exit(1); }
            Err(_) => { println!("C14-BOUNDED VIOLATION: Package::from_bytes PANICKED on the valid component #{k} of the corpus: {:?}", good); std::process::exit(1); }
        }
        for m in 0..(per * 20) {
            let mut b = good.clone();
            match m % 4 { 0 => { b.truncate(r.below(good.len() + 1)); } 1 => { let j = r.below(b.len()); b[j] = r.next() as u8; } 2 => { let j = r.below(b.len()); b[j] ^= 1 << r.below(8); let j2 = r.below(b.len()); b[j2] = b[j2].wrapping_add(1); } _ => { b = (0..r.below(64)).map(|_| r.next() as u8).collect(); } }
            blobs += 1;
            let res = catch_unwind(AssertUnwindSafe(|| { let mut t = Types::default(); Package::from_bytes("x:y", None, b.clone(), &mut t).is_ok() }));
            match res { Err(_) => { println!("C14-BOUNDED VIOLATION: Package::from_bytes PANICKED on bytes {:?}", b); std::process::exit(1); } Ok(true) => decoded += 1, Ok(false) => {} }
        }
    }
    // texts on which a recorded, unrepaired defect makes resolution panic (known_findings.json): reported as FINDING
    let mut findings: Vec<String> = vec![];
    let known_panics = [
        ("resolve-panic-function-and-type-of-one-name", "package test:comp;\ninterface i { f: func(); record f { x: u32 } }\n"),
        ("resolve-panic-function-and-type-of-one-name", "package test:comp;\nworld w { import f: func(); type f = u8; }\n"),
        ("resolve-panic-function-and-type-of-one-name", "package test:comp;\ninterface i { f: func(); resource f { } }\n"),
    ];
    for (key, text) in known_panics {
        let doc = Document::parse(text).expect("known text parses");
        if catch_unwind(AssertUnwindSafe(|| doc.resolve(Default::default()).is_ok())).is_err() {
            let line = format!("FINDING {key} Document::resolve panics (`duplicate type in scope`) on an interface / world that declares a function and a type of the same name, e.g. {:?}", text);
            if !findings.iter().any(|f| f.starts_with(&format!("FINDING {key} "))) { findings.push(line); }
        }
    }
    // deep nesting, in child processes
    let exe = std::env::current_exe().unwrap();
    for kind in ["parens", "list-type", "nested-new", "block-comment"] {
        for depth in [2000usize, 200000] {
            let out = std::process::Command::new(&exe).args(["--depth", kind, &depth.to_string()]).output().unwrap();
            let ok = out.status.success() && String::from_utf8_lossy(&out.stdout).contains("survived");
            if !ok { findings.push(format!("FINDING stack-overflow-{kind} Document::parse aborts the process (status {:?}) on a text nested {depth} deep", out.status.code())); break; }
        }
    }
    for f in &findings { println!("{f}"); }
    println!("C14-ROBUST {} {{\"bounded\": true, \"seed\": {seed}, \"texts\": {texts}, \"parsed\": {parsed}, \"rejected_with_good_diagnostics\": {rejected}, \"resolutions\": {resolved}, \"resolution_errors_with_good_diagnostics\": {resolve_errors}, \"package_byte_strings\": {blobs}, \"decoded\": {decoded}, \"mutated_texts_hitting_the_recorded_resolve_panic\": {known_panic_hits}, \"findings\": {}}}", if findings.is_empty() { "ok" } else { "findings" }, findings.len());
    std::process::exit(if findings.is_empty() { 0 } else { 3 });
}
