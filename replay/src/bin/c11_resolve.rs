//! BOUNDED cross-check of the resolution-time conformance check in its real environment (C11): unit U9 proves
//! AstResolver::validate_target against the relation `conforms` under ASSUMED contracts for graph.imports(),
//! World::implicit_imported_interfaces and the checker; this program runs the REAL parser + resolver on a small family of
//! (world, composition) pairs and compares the verdict and the diagnostic with the verdict computed directly from the
//! property statement:
//!   world  w { import dep (funcs W of {f,g}); [export run: func()] }
//!   composition: instantiations of components A and B (in either order), each importing `test:comp/dep` with funcs
//!   SA / SB of {f,g} (implicit imports, merged by name), B optionally importing `test:comp/other` (not in the world),
//!   optionally exporting `run` (a func, or - type change - an instance).
//!   conforming  <=>  SA and SB are subsets of W, no import outside the world, `run` exported as a func when required.
//! Exit 0 = same verdict (and the matching diagnostic) everywhere, 1 = a disagreeing pair is printed.
use indexmap::IndexMap;
use wac_parser::{resolution::Error, Document};
use wac_types::BorrowedPackageKey;

fn wit_pkg(text: &str) -> Vec<u8> {
    let mut resolve = wit_parser::Resolve::new();
    let pkg = resolve.push_str("p.wit", text).unwrap();
    wit_component::encode(&resolve, pkg).unwrap()
}

fn funcs(mask: u32) -> Vec<&'static str> { ["f", "g"].iter().enumerate().filter(|(i, _)| mask & (1 << i) != 0).map(|(_, n)| *n).collect() }

/// a component importing `test:comp/dep` with the given funcs (nothing when mask == 0), optionally `test:comp/other`,
/// exporting a func `run` and an instance `inst`
fn component(mask: u32, other: bool) -> Vec<u8> {
    let mut s = String::from("(component\n");
    if mask != 0 {
        s.push_str("  (import \"test:comp/dep\" (instance");
        for f in funcs(mask) { s.push_str(&format!(" (export \"{f}\" (func))")); }
        s.push_str("))\n");
    }
    if other { s.push_str("  (import \"test:comp/other\" (instance (export \"h\" (func))))\n"); }
    s.push_str(r#"  (core module $m (func (export "run")))
  (core instance $i (instantiate $m))
  (func $run (canon lift (core func $i "run")))
  (instance $inst (export "x" (func $run)))
  (export "run" (func $run))
  (export "inst" (instance $inst))
)"#);
    wat::parse_str(&s).unwrap_or_else(|e| panic!("wat: {e}\n{s}"))
}

fn main() {
    let (mut pairs, mut conforming, mut rejected) = (0u64, 0u64, [0u64; 3]);
    for w in 1u32..4 {
        for need_run in [false, true] {
            let wit = format!(
                "package test:comp;\ninterface dep {{ {} }}\ninterface other {{ h: func(); }}\nworld w {{ import dep; {} }}\n",
                funcs(w).iter().map(|f| format!("{f}: func();")).collect::<Vec<_>>().join(" "),
                if need_run { "export run: func();" } else { "" });
            let witb = wit_pkg(&wit);
            for sa in 0u32..4 { for sb in 0u32..4 { for other in [false, true] { for order in 0..2 { for export in 0..3 {
                // export: 0 none, 1 `run` as the func, 2 `run` as an instance (type change)
                let (first, second) = if order == 0 { ("a", "b") } else { ("b", "a") };
                let exp = match export { 0 => String::new(), 1 => format!("export {first}.run as run;\n"), _ => format!("export {first}.inst as run;\n") };
                let src = format!("package test:doc targets test:comp/w;\nlet {first} = new x:{first} {{ ... }};\nlet {second} = new x:{second} {{ ... }};\n{exp}");
                let doc = Document::parse(&src).unwrap_or_else(|e| panic!("parse: {e}\n{src}"));
                let mut packages: IndexMap<BorrowedPackageKey, Vec<u8>> = IndexMap::new();
                packages.insert(BorrowedPackageKey::from_name_and_version("test:comp", None), witb.clone());
                packages.insert(BorrowedPackageKey::from_name_and_version("x:a", None), component(sa, false));
                packages.insert(BorrowedPackageKey::from_name_and_version("x:b", None), component(sb, other));
                pairs += 1;
                // the verdict the property statement gives (checks in the order imports, then exports)
                let want: Result<(), &str> =
                    if other { Err("ImportNotInTarget") }
                    else if sa & !w != 0 || sb & !w != 0 { Err("TargetMismatch") }
                    else if need_run && export == 0 { Err("MissingTargetExport") }
                    else if need_run && export == 2 { Err("TargetMismatch") }
                    else { Ok(()) };
                let got: Result<(), String> = match doc.resolve(packages) {
                    Ok(_) => Ok(()),
                    Err(Error::ImportNotInTarget { .. }) => Err("ImportNotInTarget".into()),
                    Err(Error::TargetMismatch { .. }) => Err("TargetMismatch".into()),
                    Err(Error::MissingTargetExport { .. }) => Err("MissingTargetExport".into()),
                    Err(e) => Err(format!("other: {e}")),
                };
                // an import outside the world and a type mismatch may both be present: either diagnostic is a correct rejection
                let both = other && (sa & !w != 0 || sb & !w != 0);
                let same = match (&want, &got) {
                    (Ok(()), Ok(())) => true,
                    (Err(a), Err(b)) => a == b || (both && (b == "TargetMismatch" || b == "ImportNotInTarget")),
                    _ => false,
                };
                if !same {
                    println!("C11-BOUNDED VIOLATION: world dep funcs {:?}{}; A needs {:?}, B needs {:?}{}; resolution says {:?}, the property gives {:?}; document:\n{src}",
                        funcs(w), if need_run { " + export run" } else { "" }, funcs(sa), funcs(sb), if other { " + test:comp/other" } else { "" }, got, want);
                    std::process::exit(1);
                }
                match want { Ok(()) => conforming += 1, Err("ImportNotInTarget") => rejected[0] += 1, Err("TargetMismatch") => rejected[1] += 1, _ => rejected[2] += 1 }
            } } } } }
        }
    }
    println!("C11-RESOLVE ok {{\"bounded\": true, \"pairs\": {pairs}, \"conforming\": {conforming}, \"import_not_in_target\": {}, \"target_mismatch\": {}, \"missing_export\": {}}}", rejected[0], rejected[1], rejected[2]);
}
