//! BOUNDED witness search for the memoisation / variance clauses of C07 ("earlier checks never change a verdict"; unit
//! U3 proves is_subtype against `kind_sub` for every memo state - `cache_sound` - but a rewrite of the cache key through a
//! new helper leaves that proof undecided).  Universe: two function types, a small {f} and a big {f, g} instance type, and
//! component types importing / exporting them in every combination (so that checks run in inverted direction for
//! imports).  For EVERY ordered pair of checks (x <= y, then u <= v) sharing one memo, the second verdict must equal the
//! verdict the subtype relation gives (written here directly: instances covariant in their exports; components
//! contravariant in imports, covariant in exports), i.e. it must not depend on the first check.
//! Exit 0 = agreement on all pairs of checks, 1 = a disagreeing sequence is printed.
use indexmap::IndexMap;
use std::collections::HashSet;
use wac_types::{FuncType, Interface, ItemKind, PrimitiveType, SubtypeChecker, Types, ValueType, World};

#[derive(Clone, Copy, PartialEq, Debug)]
enum Kd { F1, F2, Small, Big, Comp { imp: Option<bool>, exp: Option<bool> } }   // Some(true) = big instance, Some(false) = small

fn sub_inst(a_big: bool, b_big: bool) -> bool { a_big || !b_big }   // a <= b: a has every export b has
fn sub(a: Kd, b: Kd) -> bool {
    match (a, b) {
        (Kd::F1, Kd::F1) | (Kd::F2, Kd::F2) => true,
        (Kd::Small, Kd::Small) | (Kd::Big, Kd::Big) | (Kd::Big, Kd::Small) => true,
        (Kd::Comp { imp: ia, exp: ea }, Kd::Comp { imp: ib, exp: eb }) => {
            // a can be used where b is expected: a needs at most what b's user provides (imports contravariant),
            // and offers at least what b offers (exports covariant)
            let imports_ok = match (ia, ib) { (None, _) => true, (Some(_), None) => false, (Some(x), Some(y)) => sub_inst(y, x) };
            let exports_ok = match (ea, eb) { (_, None) => true, (None, Some(_)) => false, (Some(x), Some(y)) => sub_inst(x, y) };
            imports_ok && exports_ok
        }
        _ => false,
    }
}

fn main() {
    let mut kinds: Vec<Kd> = vec![Kd::F1, Kd::F2, Kd::Small, Kd::Big];
    for imp in [None, Some(false), Some(true)] { for exp in [None, Some(false), Some(true)] { kinds.push(Kd::Comp { imp, exp }); } }
    let mut types = Types::default();
    let f1 = types.add_func_type(FuncType { params: IndexMap::new(), result: None, is_async: false });
    let f2 = types.add_func_type(FuncType { params: IndexMap::new(), result: Some(ValueType::Primitive(PrimitiveType::U8)), is_async: false });
    let mut inst = |types: &mut Types, big: bool| { let mut e: IndexMap<String, ItemKind> = [("f".to_string(), ItemKind::Func(f1))].into_iter().collect(); if big { e.insert("g".to_string(), ItemKind::Func(f2)); } types.add_interface(Interface { id: None, uses: Default::default(), exports: e }) };
    let (small, big) = (inst(&mut types, false), inst(&mut types, true));
    let items: Vec<ItemKind> = kinds.iter().map(|k| match k {
        Kd::F1 => ItemKind::Func(f1), Kd::F2 => ItemKind::Func(f2), Kd::Small => ItemKind::Instance(small), Kd::Big => ItemKind::Instance(big),
        Kd::Comp { imp, exp } => {
            let mk = |o: &Option<bool>, name: &str| -> IndexMap<String, ItemKind> { match o { None => IndexMap::new(), Some(b) => [(name.to_string(), ItemKind::Instance(if *b { big } else { small }))].into_iter().collect() } };
            ItemKind::Component(types.add_world(World { id: None, uses: Default::default(), imports: mk(imp, "i"), exports: mk(exp, "e") }))
        }
    }).collect();
    let n = kinds.len();
    let (mut sequences, mut accepted) = (0u64, 0u64);
    // fresh-memo verdicts first
    for u in 0..n { for v in 0..n {
        let mut cache = HashSet::new();
        let got = SubtypeChecker::new(&mut cache).is_subtype(items[u], &types, items[v], &types).is_ok();
        if got != sub(kinds[u], kinds[v]) { println!("C07-BOUNDED VIOLATION: with a fresh memo {:?} <= {:?} is {}, the subtype relation says {}", kinds[u], kinds[v], got, sub(kinds[u], kinds[v])); std::process::exit(1); }
    } }
    // every pair of checks sharing one memo
    for x in 0..n { for y in 0..n { for u in 0..n { for v in 0..n {
        sequences += 1;
        let mut cache = HashSet::new();
        let first = SubtypeChecker::new(&mut cache).is_subtype(items[x], &types, items[y], &types).is_ok();
        let second = SubtypeChecker::new(&mut cache).is_subtype(items[u], &types, items[v], &types).is_ok();
        if second { accepted += 1; }
        if second != sub(kinds[u], kinds[v]) {
            println!("C07-BOUNDED VIOLATION: after checking {:?} <= {:?} (verdict {}) with the same memo, {:?} <= {:?} is {}, the subtype relation says {}", kinds[x], kinds[y], first, kinds[u], kinds[v], second, sub(kinds[u], kinds[v]));
            std::process::exit(1);
        }
    } } } }
    println!("C07-MEMO ok {{\"bounded\": true, \"kinds\": {n}, \"sequences_of_two_checks\": {sequences}, \"second_checks_accepted\": {accepted}}}");
}
