//! BOUNDED witness search for the core-module clauses of C07 (unit U3 proves SubtypeChecker::{module, core_extern}
//! against `kind_sub`; a rewrite of the limits comparison through a new helper leaves that proof undecided).
//! Universe: memories (initial 1|2, maximum none|2|3) and tables (initial 1|2, maximum none|2); module types that
//! import and / or export one of them (or nothing) under fixed names; component types importing or exporting such a
//! module (so that the module check also runs in an inverted position).  For EVERY ordered pair the verdict of the
//! real checker (fresh memo, and again with the memo of the previous pair) must equal the subtype relation written
//! here from the WebAssembly import-matching rule: limits {i1, m1} match {i2, m2} iff i1 >= i2 and (m2 absent or
//! (m1 present and m1 <= m2)); a module is usable where another is expected iff each of ITS imports is matched by the
//! expected module's import of that name (what the instantiator provides) and each export of the expected module is
//! matched by its own export; components are contravariant in imports and covariant in exports.
//! Exit 0 = agreement on all pairs, 1 = a disagreeing pair is printed.
use indexmap::IndexMap;
use std::collections::HashSet;
use wac_types::{CoreExtern, CoreRefType, HeapType, ItemKind, ModuleType, SubtypeChecker, Types, World};

#[derive(Clone, Copy, PartialEq, Debug)]
enum Ext { Mem(u64, Option<u64>), Tab(u64, Option<u64>) }
#[derive(Clone, Copy, PartialEq, Debug)]
struct Mod { imp: Option<Ext>, exp: Option<Ext> }
#[derive(Clone, Copy, PartialEq, Debug)]
enum Kd { M(Mod), Comp { imp: Option<Mod>, exp: Option<Mod> } }

fn limits(i1: u64, m1: Option<u64>, i2: u64, m2: Option<u64>) -> bool { i1 >= i2 && match (m1, m2) { (_, None) => true, (None, Some(_)) => false, (Some(a), Some(b)) => a <= b } }
fn ext_sub(a: Ext, b: Ext) -> bool { match (a, b) { (Ext::Mem(i1, m1), Ext::Mem(i2, m2)) | (Ext::Tab(i1, m1), Ext::Tab(i2, m2)) => limits(i1, m1, i2, m2), _ => false } }
fn mod_sub(a: Mod, b: Mod) -> bool {
    let imports_ok = match (a.imp, b.imp) { (None, _) => true, (Some(_), None) => false, (Some(x), Some(y)) => ext_sub(y, x) };
    let exports_ok = match (a.exp, b.exp) { (_, None) => true, (None, Some(_)) => false, (Some(x), Some(y)) => ext_sub(x, y) };
    imports_ok && exports_ok
}
fn sub(a: Kd, b: Kd) -> bool {
    match (a, b) {
        (Kd::M(x), Kd::M(y)) => mod_sub(x, y),
        (Kd::Comp { imp: ia, exp: ea }, Kd::Comp { imp: ib, exp: eb }) => {
            // imports are contravariant (what b's user provides must do for a), exports covariant
            let imports_ok = match (ia, ib) { (None, _) => true, (Some(_), None) => false, (Some(x), Some(y)) => mod_sub(y, x) };
            let exports_ok = match (ea, eb) { (_, None) => true, (None, Some(_)) => false, (Some(x), Some(y)) => mod_sub(x, y) };
            imports_ok && exports_ok
        }
        _ => false,
    }
}

fn build_ext(e: Ext) -> CoreExtern {
    match e {
        Ext::Mem(initial, maximum) => CoreExtern::Memory { memory64: false, shared: false, initial, maximum, page_size_log2: None },
        Ext::Tab(initial, maximum) => CoreExtern::Table { element_type: CoreRefType { nullable: true, heap_type: HeapType::Func }, initial, maximum, table64: false, shared: false },
    }
}

fn main() {
    let mut exts: Vec<Ext> = vec![];
    for i in [1u64, 2] { for m in [None, Some(2u64), Some(3)] { exts.push(Ext::Mem(i, m)); } }
    for i in [1u64, 2] { for m in [None, Some(2u64)] { exts.push(Ext::Tab(i, m)); } }
    let mut mods: Vec<Mod> = vec![Mod { imp: None, exp: None }];
    for e in &exts { mods.push(Mod { imp: Some(*e), exp: None }); mods.push(Mod { imp: None, exp: Some(*e) }); }
    for (i, e) in exts.iter().enumerate() { mods.push(Mod { imp: Some(*e), exp: Some(exts[(i + 3) % exts.len()]) }); }
    let mut kinds: Vec<Kd> = mods.iter().map(|m| Kd::M(*m)).collect();
    for m in mods.iter().filter(|m| m.exp.is_none()).take(9) { kinds.push(Kd::Comp { imp: Some(*m), exp: None }); kinds.push(Kd::Comp { imp: None, exp: Some(*m) }); }
    let mut types = Types::default();
    let mut module = |types: &mut Types, m: Mod| {
        let mut imports = IndexMap::new(); let mut exports = IndexMap::new();
        if let Some(e) = m.imp { imports.insert(("env".to_string(), "x".to_string()), build_ext(e)); }
        if let Some(e) = m.exp { exports.insert("y".to_string(), build_ext(e)); }
        types.add_module_type(ModuleType { imports, exports })
    };
    let items: Vec<ItemKind> = kinds.iter().map(|k| match k {
        Kd::M(m) => ItemKind::Module(module(&mut types, *m)),
        Kd::Comp { imp, exp } => {
            let mut mk = |types: &mut Types, o: &Option<Mod>| -> IndexMap<String, ItemKind> { match o { None => IndexMap::new(), Some(m) => { let id = module(types, *m); [("m".to_string(), ItemKind::Module(id))].into_iter().collect() } } };
            let (imports, exports) = (mk(&mut types, imp), mk(&mut types, exp));
            ItemKind::Component(types.add_world(World { id: None, uses: Default::default(), imports, exports }))
        }
    }).collect();
    let n = kinds.len();
    let (mut pairs, mut accepted) = (0u64, 0u64);
    let mut shared: HashSet<_> = HashSet::new();
    for a in 0..n { for b in 0..n {
        pairs += 1;
        let want = sub(kinds[a], kinds[b]);
        let mut fresh = HashSet::new();
        let got = SubtypeChecker::new(&mut fresh).is_subtype(items[a], &types, items[b], &types).is_ok();
        if got != want { println!("C07-BOUNDED VIOLATION: with a fresh memo {:?} <= {:?} is {got}, the subtype relation says {want}", kinds[a], kinds[b]); std::process::exit(1); }
        let got2 = SubtypeChecker::new(&mut shared).is_subtype(items[a], &types, items[b], &types).is_ok();
        if got2 != want { println!("C07-BOUNDED VIOLATION: with the memo of the earlier checks {:?} <= {:?} is {got2}, the subtype relation says {want}", kinds[a], kinds[b]); std::process::exit(1); }
        if want { accepted += 1; }
    } }
    println!("C07-MODULES ok {{\"bounded\": true, \"kinds\": {n}, \"evaluations\": {pairs}, \"distinct_nontrivial\": {accepted}, \"accepted_pairs\": {accepted}}}");
}
