//! Replay for C04 (LANGUAGE.md "Inferred Arguments", rule 3 before rule 4): the instantiated package imports both a
//! plain name `c` and exactly one path ending in the local name (`foo:bar/c`); the local `c` is an instance that is
//! neither an import nor an alias and has no package path.  The reference binds the argument to `foo:bar/c`
//! (rule 3); the implementation skips rule 3 because the name `c` "exists directly" and binds it to `c` (rule 4).
//! Exit 1 = the implementation deviates from the documented precedence.
use indexmap::IndexMap;
use wac_parser::Document;
use wac_types::BorrowedPackageKey;

fn main() {
    let socket = wat::parse_str(r#"(component
        (import "c" (func))
        (import "foo:bar/c" (instance (export "f" (func))))
    )"#).unwrap();
    let plug = wat::parse_str(r#"(component
        (core module $m (func (export "f")))
        (core instance $i (instantiate $m))
        (func $f (canon lift (core func $i "f")))
        (export "f" (func $f))
    )"#).unwrap();
    let src = "package test:doc;\nlet c = new x:y {};\nlet s = new t:p { c, ... };\nexport s;\n";
    let doc = Document::parse(src).unwrap();
    let mut packages: IndexMap<BorrowedPackageKey, Vec<u8>> = IndexMap::new();
    packages.insert(BorrowedPackageKey::from_name_and_version("t:p", None), socket);
    packages.insert(BorrowedPackageKey::from_name_and_version("x:y", None), plug);
    println!("document:\n{src}");
    match doc.resolve(packages) {
        Ok(_) => { println!("resolved: the instance `c` was passed as `foo:bar/c` (documented rule 3)"); }
        Err(e) => {
            println!("resolution FAILED: {e}");
            println!("C04-REPLAY: the local `c` was bound to the import named `c` (rule 4) although exactly one import path ends with `c` (rule 3 has precedence in LANGUAGE.md)");
            std::process::exit(1);
        }
    }
}
