//! BOUNDED stand-in for AstResolver::find_matching_interface_name (assumed in unit U8: `.filter` over `rfind`/`find`
//! on str is outside Verus's dialect) and for the three places that use it: inferred `new` arguments, named `new`
//! arguments with an identifier name, and access expressions (`i.id`; for `i["id"]` no inference is performed).  For every subset (up to a size) of a pool of extern
//! names - plain names, interface paths with and without versions, ambiguous and unambiguous last segments - the REAL
//! parser + resolver are run and the chosen argument / export name is read back from the composition graph and
//! compared with a reference evaluator written from LANGUAGE.md:
//!     name(id) = the unique extern whose path ends with `id` if there is exactly one, else `id`
//! (for inferred arguments rules 1 and 2 do not apply to the locals used here: a plain instantiation).
//! A disagreement that is exactly the recorded class "an extern named `id` itself exists, so the unique path is not
//! used" is printed as `FINDING <site>-direct-name-shadows-unique-path`; anything else is a C04-BOUNDED VIOLATION.
//! Exit 0 = agreement, 3 = only FINDING lines, 1 = violation.   usage: c04_names [max_subset_size]
use indexmap::IndexMap;
use wac_parser::Document;
use wac_types::BorrowedPackageKey;

// the last two are implementation-import names (valid extern names of a component): an `@` in front of the last `/`, a
// version inside angle brackets - neither ends with a local name
const POOL: [&str; 11] = ["c", "foo:bar/c", "foo:bar/c@1.0.0", "x:y/c", "d", "foo:bar/d", "c-d", "foo:bar/c-d", "foo:c/bar", "url=<https://example.com/@scope/c>", "locked-dep=<foo:bar/d@1.0.0>"];
const IDS: [&str; 3] = ["c", "d", "c-d"];

fn last_segment(n: &str) -> Option<&str> {
    let i = n.rfind('/')?;
    let t = &n[i + 1..];
    Some(match t.find('@') { Some(j) => &t[..j], None => t })
}
/// LANGUAGE.md: "exactly one import/export that has a path which ends with the local name"
fn doc_name<'a>(set: &[&'a str], id: &'a str) -> &'a str {
    let m: Vec<&&str> = set.iter().filter(|n| last_segment(n) == Some(id)).collect();
    if m.len() == 1 { m[0] } else { id }
}
fn shadow_class(set: &[&str], id: &str) -> bool {
    set.contains(&id) && set.iter().filter(|n| last_segment(n) == Some(id)).count() == 1
}

fn socket(names: &[&str]) -> Option<Vec<u8>> {
    let mut s = String::from("(component\n");
    for n in names { s.push_str(&format!("  (import \"{n}\" (instance (export \"f\" (func))))\n")); }
    s.push(')');
    wat::parse_str(&s).ok()
}
fn plug() -> Vec<u8> {
    wat::parse_str(r#"(component
        (core module $m (func (export "f")))
        (core instance $i (instantiate $m))
        (func $f (canon lift (core func $i "f")))
        (export "f" (func $f)))"#).unwrap()
}
fn exporter(names: &[&str]) -> Option<Vec<u8>> {
    let mut s = String::from(r#"(component
        (core module $m (func (export "f")))
        (core instance $i (instantiate $m))
        (func $f (canon lift (core func $i "f")))
        (instance $inst (export "f" (func $f)))
"#);
    for n in names { s.push_str(&format!("  (export \"{n}\" (instance $inst))\n")); }
    s.push(')');
    wat::parse_str(&s).ok()
}

#[derive(Default)]
struct Tally { cases: u64, skipped: u64, agree: u64, findings: [u64; 3], first: [Option<String>; 3], violations: u64 }

/// resolution must return, whatever the extern names are (C14): a panic is reported as a violation with the document
fn safe_resolve<'a>(doc: &'a Document<'a>, packages: IndexMap<BorrowedPackageKey<'a>, Vec<u8>>, src: &str, set: &[&str]) -> Result<wac_parser::resolution::Resolution<'a>, wac_parser::resolution::Error> {
    match std::panic::catch_unwind(std::panic::AssertUnwindSafe(|| doc.resolve(packages))) {
        Ok(r) => r,
        Err(_) => { println!("C14-BOUNDED VIOLATION: Document::resolve PANICKED; the instantiated package has the extern names {set:?}; document:\n{src}"); std::process::exit(1); }
    }
}

fn report(t: &mut Tally, site: usize, set: &[&str], id: &str, src: &str, got: &str, want: &str) {
    if shadow_class(set, id) && got == id {
        t.findings[site] += 1;
        if t.first[site].is_none() { t.first[site] = Some(format!("externs {set:?}, `{id}`: implementation uses `{got}`, LANGUAGE.md gives `{want}`; document: {}", src.replace('\n', " "))); }
    } else {
        t.violations += 1;
        if std::env::args().nth(2).map(|s| s == "panics-only").unwrap_or(false) { return; }
        println!("C04-BOUNDED VIOLATION: externs {set:?}, identifier `{id}`: implementation chose {got}, LANGUAGE.md gives {want}; document:\n{src}");
    }
}

fn main() {
    let max: usize = std::env::args().nth(1).and_then(|s| s.parse().ok()).unwrap_or(3);
    // `panics-only` (used by the C14 check): the name comparison belongs to C04; only a panic is reported
    let panics_only = std::env::args().nth(2).map(|s| s == "panics-only").unwrap_or(false);
    let sites = ["inferred-argument", "named-argument", "access-expression"];
    let mut t = Tally::default();
    for mask in 1u32..(1 << POOL.len()) {
        if mask.count_ones() as usize > max { continue; }
        let set: Vec<&str> = (0..POOL.len()).filter(|i| mask & (1 << i) != 0).map(|i| POOL[i]).collect();
        let Some(sock) = socket(&set) else { t.skipped += 1; continue; };
        let exp = if set.iter().any(|n| n.contains("=<")) { None } else { exporter(&set) };   // None: some name of the set is not a legal EXPORT name (only the import sites are run)
        for id in IDS {
            let want = doc_name(&set, id);
            // ---- sites 0 and 1: `new t:p { id, ... }` and `new t:p { id: v, ... }`
            for site in 0..2 {
                let src = if site == 0 { format!("package test:doc;\nlet {id} = new x:y {{}};\nlet s = new t:p {{ {id}, ... }};\nexport s as out;\n") }
                          else { format!("package test:doc;\nlet v = new x:y {{}};\nlet s = new t:p {{ {id}: v, ... }};\nexport s as out;\n") };
                let doc = Document::parse(&src).unwrap();
                let mut packages: IndexMap<BorrowedPackageKey, Vec<u8>> = IndexMap::new();
                packages.insert(BorrowedPackageKey::from_name_and_version("t:p", None), sock.clone());
                packages.insert(BorrowedPackageKey::from_name_and_version("x:y", None), plug());
                t.cases += 1;
                match safe_resolve(&doc, packages, &src, &set) {
                    Ok(res) => {
                        let g = res.graph();
                        let local = if site == 0 { id } else { "v" };
                        let arg = g.node_ids().find(|n| g[*n].name() == Some(local)).expect("argument node");
                        let inst = g.node_ids().find(|n| g[*n].name() == Some("s")).expect("instantiation node");
                        let bound: Vec<&str> = g.get_instantiation_arguments(inst).filter(|(_, src)| *src == arg).map(|(n, _)| n).collect();
                        if bound.len() == 1 && bound[0] == want { t.agree += 1; }
                        else { report(&mut t, site, &set, id, &src, &bound.join(","), want); }
                    }
                    Err(e) => {
                        // the reference name is not an import of t:p: the document is ill-formed, rejection is right
                        if !set.contains(&want) { t.agree += 1; }
                        else { report(&mut t, site, &set, id, &src, &format!("<rejected: {e}>"), want); }
                    }
                }
            }
            // ---- site 2: `i.id`
            let Some(exp) = exp.as_ref() else { continue; };
            let src = format!("package test:doc;\nlet i = new t:q {{}};\nlet a = i.{id};\nexport a as out;\n");
            let doc = Document::parse(&src).unwrap();
            let mut packages: IndexMap<BorrowedPackageKey, Vec<u8>> = IndexMap::new();
            packages.insert(BorrowedPackageKey::from_name_and_version("t:q", None), exp.clone());
            t.cases += 1;
            match safe_resolve(&doc, packages, &src, &set) {
                Ok(res) => {
                    let g = res.graph();
                    let out = g.get_export("out").expect("export");
                    let i = g.node_ids().find(|n| g[*n].name() == Some("i")).expect("instance node");
                    match g.get_alias_source(out) {
                        Some((srcn, name)) if srcn == i && name == want => t.agree += 1,
                        Some((_, name)) => { let name = name.to_string(); report(&mut t, 2, &set, id, &src, &name, want) }
                        None => report(&mut t, 2, &set, id, &src, "<not an alias>", want),
                    }
                }
                Err(e) => {
                    if !set.contains(&want) { t.agree += 1; }
                    else { report(&mut t, 2, &set, id, &src, &format!("<rejected: {e}>"), want); }
                }
            }
            // ---- site 3: `i["id"]` - "no inference is performed": the string is the export name itself
            let src = format!("package test:doc;\nlet i = new t:q {{}};\nlet a = i[\"{id}\"];\nexport a as out;\n");
            let doc = Document::parse(&src).unwrap();
            let mut packages: IndexMap<BorrowedPackageKey, Vec<u8>> = IndexMap::new();
            packages.insert(BorrowedPackageKey::from_name_and_version("t:q", None), exp.clone());
            t.cases += 1;
            match safe_resolve(&doc, packages, &src, &set) {
                Ok(res) => {
                    let g = res.graph();
                    let out = g.get_export("out").expect("export");
                    match g.get_alias_source(out) {
                        Some((_, name)) if name == id && set.contains(&id) => t.agree += 1,
                        other => { t.violations += 1; if !panics_only { println!("C04-BOUNDED VIOLATION: externs {set:?}: `i[\"{id}\"]` (no inference is performed for a string) was bound to {:?}; document:\n{src}", other.map(|(_, n)| n.to_string())); } }
                    }
                }
                Err(e) => { if !set.contains(&id) { t.agree += 1; } else { t.violations += 1; if !panics_only { println!("C04-BOUNDED VIOLATION: externs {set:?}: `i[\"{id}\"]` names an existing export but is rejected ({e}); document:\n{src}"); } } }
            }
        }
    }
    if panics_only { println!("C14-NAMES-PANICS ok {{\"bounded\": true, \"max_subset_size\": {max}, \"evaluations\": {}, \"distinct_nontrivial\": {}, \"pool\": {:?}}}", t.cases, t.cases, POOL); std::process::exit(0); }
    for s in 0..3 {
        if let Some(f) = &t.first[s] { println!("FINDING {}-direct-name-shadows-unique-path {} cases, e.g. {}", sites[s], t.findings[s], f); }
    }
    let nf: u64 = t.findings.iter().sum();
    println!("C04-BOUNDED {} {{\"bounded\": true, \"max_subset_size\": {max}, \"pool\": {:?}, \"identifiers\": {:?}, \"cases\": {}, \"agree\": {}, \"subsets_not_encodable\": {}, \"known_class_disagreements\": {:?}, \"violations\": {}}}",
        if t.violations > 0 { "VIOLATION" } else if nf > 0 { "findings" } else { "ok" }, POOL, IDS, t.cases, t.agree, t.skipped, t.findings, t.violations);
    std::process::exit(if t.violations > 0 { 1 } else if nf > 0 { 3 } else { 0 });
}
