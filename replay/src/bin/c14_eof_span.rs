//! Replay of the C14 end-of-input span defect: every span carried by a parse error must lie
//! within the source and on character boundaries.  Exit 1 = violated.
use wac_parser::Document;
fn main() {
    let inputs = ["package foo:bar;\nimport x: func() // é", "", "package foo:bar;\nimport x: func() // 日本"];
    let mut bad = 0;
    for src in inputs {
        match Document::parse(src) {
            Ok(_) => println!("{src:?}: parsed"),
            Err(e) => {
                use miette::Diagnostic;
                if let Some(labels) = e.labels() {
                    for l in labels {
                        let (o, n) = (l.offset(), l.len());
                        let ok = o + n <= src.len() && src.is_char_boundary(o) && src.is_char_boundary(o + n);
                        println!("{src:?}: error label offset {o} len {n} (source len {}) in-bounds-on-boundaries={ok}", src.len());
                        if !ok { bad += 1; }
                    }
                }
            }
        }
    }
    std::process::exit(if bad > 0 { 1 } else { 0 });
}
