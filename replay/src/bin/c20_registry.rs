//! BOUNDED check of C20 ("registry resolution returns the right content for every requested key").
//! RegistryPackageResolver::resolve is async code over an external registry client (warg), spawned tokio tasks and a
//! FuturesUnordered whose completion order is a schedule: outside Verus and Kani, so no contract is discharged.  The
//! stand-in starts a LOCAL warg server in this process (as the repository's own registry test does), publishes a small
//! library - two packages with three / two releases each, every release a component with a distinguishing import name and
//! a different size - and resolves every ordered list of up to N keys (same name at different versions, versioned and
//! unversioned references to one package, missing versions, missing packages) with the REAL resolver, on runtimes with 1
//! and 4 worker threads.  For every requested key the returned bytes must be exactly the content published under that name
//! and version (the latest release for an unversioned key); a missing package / version must be reported as such; no key
//! may be dropped or given another key's content.
//! Exit 0 = agreement, 1 = a disagreeing request is printed.   usage: c20_registry [max_keys]
use indexmap::IndexMap;
use miette::SourceSpan;
use std::{path::Path, time::Duration};
use tokio_util::sync::CancellationToken;
use wac_resolver::{Error, RegistryPackageResolver};
use wac_types::BorrowedPackageKey;
use warg_client::{storage::{ContentStorage, PublishEntry, PublishInfo}, FileSystemClient};
use warg_crypto::signing::PrivateKey;
use warg_protocol::{operator::NamespaceState, registry::PackageName};
use warg_server::{policy::content::WasmContentPolicy, Config, Server};

const OPERATOR_KEY: &str = "ecdsa-p256:I+UlDo0HxyBBFeelhPPWmD+LnklOpqZDkrFP5VduASk=";
const SIGNING_KEY: &str = "ecdsa-p256:2CV1EpLaSYEn4In4OAEDAj5O4Hzu8AFAxgHXuG310Ew=";

fn content(marker: &str, pad: usize) -> Vec<u8> {
    // a component whose import name identifies the release; `pad` extra imports perturb the size (download time)
    let mut s = format!("(component (import \"{marker}\" (func))");
    for i in 0..pad { s.push_str(&format!(" (import \"pad{i}\" (func (param \"a-long-parameter-name-p{i}\" string)))")); }
    s.push(')');
    wat::parse_str(&s).unwrap()
}

async fn publish(config: &warg_client::Config, name: &str, version: &str, bytes: Vec<u8>, init: bool) -> anyhow::Result<()> {
    let client = FileSystemClient::new_with_config(None, config, None).await?;
    let digest = client.content().store_content(Box::pin(futures::stream::once(async move { Ok(bytes.into()) })), None).await?;
    let mut entries = vec![];
    if init { entries.push(PublishEntry::Init); }
    entries.push(PublishEntry::Release { version: version.parse().unwrap(), content: digest });
    let name: PackageName = name.parse()?;
    let id = client.publish_with_info(&PrivateKey::decode(SIGNING_KEY.to_string()).unwrap(), PublishInfo { name: name.clone(), head: None, entries }).await?;
    client.wait_for_publish(&name, &id, Duration::from_millis(200)).await?;   // third argument: the polling interval
    Ok(())
}

async fn serve(root: &Path) -> anyhow::Result<(tokio::task::JoinHandle<()>, CancellationToken, warg_client::Config)> {
    let shutdown = CancellationToken::new();
    let config = Config::new(PrivateKey::decode(OPERATOR_KEY.to_string())?, Some(vec![("test".to_string(), NamespaceState::Defined)]), root.join("server"))
        .with_addr(([127, 0, 0, 1], 0)).with_shutdown(shutdown.clone().cancelled_owned()).with_checkpoint_interval(Duration::from_millis(100)).with_content_policy(WasmContentPolicy::default());
    let server = Server::new(config).initialize().await?;
    let addr = server.local_addr()?;
    let task = tokio::spawn(async move { server.serve().await.unwrap(); });
    let config = warg_client::Config { home_url: Some(format!("http://{addr}")), registries_dir: Some(root.join("registries")), content_dir: Some(root.join("content")), namespace_map_path: Some(root.join("namespaces")), keyring_auth: false, keyring_backend: None, keys: Default::default(), ignore_federation_hints: false, disable_auto_accept_federation_hints: false, disable_auto_package_init: false, disable_interactive: true };
    Ok((task, shutdown, config))
}

/// (name, version) pool and what the registry holds
const POOL: [(&str, Option<&str>); 8] = [("test:a", Some("1.0.0")), ("test:a", Some("1.1.0")), ("test:a", Some("2.0.0")), ("test:a", None), ("test:b", Some("0.1.0")), ("test:b", None), ("test:a", Some("9.9.9")), ("test:zz", None)];
fn expected(k: usize) -> Result<&'static str, &'static str> {
    match k { 0 => Ok("a-v100"), 1 => Ok("a-v110"), 2 => Ok("a-v200"), 3 => Ok("a-v200"), 4 => Ok("b-v010"), 5 => Ok("b-v020"), 6 => Err("PackageVersionDoesNotExist"), _ => Err("PackageDoesNotExist") }
}

fn main() {
    let maxk: usize = std::env::args().nth(1).and_then(|s| s.parse().ok()).unwrap_or(3);
    let root = std::env::temp_dir().join(format!("c20_registry_{}", std::process::id()));
    let _ = std::fs::remove_dir_all(&root);
    std::fs::create_dir_all(&root).unwrap();
    let releases: Vec<(&str, &str, Vec<u8>)> = vec![
        ("test:a", "1.0.0", content("a-v100", 40)), ("test:a", "1.1.0", content("a-v110", 0)), ("test:a", "2.0.0", content("a-v200", 12)),
        ("test:b", "0.1.0", content("b-v010", 3)), ("test:b", "0.2.0", content("b-v020", 25)),
    ];
    let (mut requests, mut keys_checked) = (0u64, 0u64);
    let mut samples = vec![];
    for workers in [1usize, 4] {
        let rt = tokio::runtime::Builder::new_multi_thread().worker_threads(workers).enable_all().build().unwrap();
        let dir = root.join(format!("w{workers}"));
        std::fs::create_dir_all(&dir).unwrap();
        let res: Result<(), String> = rt.block_on(async {
            let (task, shutdown, config) = serve(&dir).await.map_err(|e| format!("INFRA: cannot start the local registry: {e:#}"))?;

            let mut seen = std::collections::HashSet::new();
            for (n, v, b) in &releases { publish(&config, n, v, b.clone(), seen.insert(*n)).await.map_err(|e| format!("INFRA: cannot publish {n}@{v}: {e:#}"))?; }
            // every ordered list of distinct pool entries up to maxk
            let mut lists: Vec<Vec<usize>> = vec![];
            let mut frontier: Vec<Vec<usize>> = vec![vec![]];
            for _ in 0..maxk { let mut next = vec![]; for l in &frontier { for k in 0..POOL.len() { if !l.contains(&k) { let mut m = l.clone(); m.push(k); next.push(m); } } } lists.extend(next.iter().cloned()); frontier = next; }
            // a few long requests (5 and 6 keys, in three orders each) whatever the bound
            for base in [vec![0usize, 1, 2, 3, 4, 5], vec![5, 4, 3, 2, 1, 0], vec![2, 4, 0, 5, 1, 3], vec![0, 4, 1, 5, 2], vec![3, 0, 5, 1, 4], vec![0, 1, 2, 4, 5, 6]] { lists.push(base); }
            for l in &lists {
                // at most one failing key per request (so that the expected error is unambiguous), and not too many requests
                if l.iter().filter(|k| expected(**k).is_err()).count() > 1 { continue; }
                if l.len() == 3 && (l[0] * 7 + l[1] * 3 + l[2] + workers) % 4 != 0 { continue; }
                let versions: Vec<Option<semver::Version>> = l.iter().map(|k| POOL[*k].1.map(|v| semver::Version::parse(v).unwrap())).collect();
                let mut keys: IndexMap<BorrowedPackageKey, SourceSpan> = IndexMap::new();
                for (i, k) in l.iter().enumerate() { keys.insert(BorrowedPackageKey::from_name_and_version(POOL[*k].0, versions[i].as_ref()), SourceSpan::new(i.into(), 1)); }
                // a fresh client cache per request: downloads really happen and complete in some order
                let cdir = dir.join(format!("client{requests}"));
                let mut cfg = config.clone();
                cfg.registries_dir = Some(cdir.join("registries")); cfg.content_dir = Some(cdir.join("content")); cfg.namespace_map_path = Some(cdir.join("namespaces"));
                let resolver = RegistryPackageResolver::new_with_config(None, &cfg, None).await.map_err(|e| format!("INFRA: cannot create the resolver: {e:#}"))?;
                let mut got = resolver.resolve(&keys).await;
                // a transport hiccup of the local server under load is not a verdict: retry, and only a persistent failure counts
                for _ in 0..3 { if matches!(got, Err(Error::RegistryUpdateFailure { .. }) | Err(Error::RegistryDownloadFailure { .. })) { tokio::time::sleep(Duration::from_millis(300)).await; got = resolver.resolve(&keys).await; } }
                requests += 1;
                let show = format!("request {:?} ({workers} worker thread(s))", l.iter().map(|k| format!("{}{}", POOL[*k].0, POOL[*k].1.map(|v| format!("@{v}")).unwrap_or_default())).collect::<Vec<_>>());
                let failing = l.iter().position(|k| expected(*k).is_err());
                match (got, failing) {
                    (Ok(m), None) => {
                        for (i, k) in l.iter().enumerate() {
                            keys_checked += 1;
                            let key = keys.get_index(i).unwrap().0;
                            let want = expected(*k).unwrap();
                            match m.get(key) {
                                None => return Err(format!("{show}: the key #{i} ({key}) was dropped from the result")),
                                Some(bytes) => {
                                    let is = |marker: &str| releases.iter().any(|(_, _, b)| b == bytes && String::from_utf8_lossy(b).contains(marker));
                                    if !is(want) { let which = releases.iter().find(|(_, _, b)| b == bytes).map(|(n, v, _)| format!("{n}@{v}")).unwrap_or("unknown bytes".into()); return Err(format!("{show}: the key #{i} ({key}) was given the content of {which}, expected the release marked `{want}`")); }
                                }
                            }
                        }
                        if m.len() != l.len() { return Err(format!("{show}: {} keys requested, {} returned", l.len(), m.len())); }
                        if samples.len() < 2 && l.len() == maxk { samples.push(format!("{show}: every key got its own release")); }
                    }
                    (Ok(_), Some(i)) => return Err(format!("{show}: key #{i} does not exist in the registry ({}), but the request succeeded", expected(l[i]).unwrap_err())),
                    (Err(e), Some(i)) => {
                        let kind = match &e { Error::PackageDoesNotExist { .. } => "PackageDoesNotExist", Error::PackageVersionDoesNotExist { .. } => "PackageVersionDoesNotExist", Error::PackageNoReleases { .. } => "PackageNoReleases", _ => "other" };
                        let span = match &e { Error::PackageDoesNotExist { span, .. } | Error::PackageVersionDoesNotExist { span, .. } | Error::PackageNoReleases { span, .. } => Some(span.offset()), _ => None };
                        if kind != expected(l[i]).unwrap_err() { return Err(format!("{show}: expected {} for key #{i}, got {kind}: {e}", expected(l[i]).unwrap_err())); }
                        if span != Some(i) { return Err(format!("{show}: the error is attributed to key #{:?}, the missing one is #{i}", span)); }
                    }
                    (Err(e), None) => return Err(format!("{show}: every key exists, but resolution failed: {e}")),
                }
            }
            shutdown.cancel();
            let _ = task.await;
            Ok(())
        });
        if let Err(e) = res {
            let _ = std::fs::remove_dir_all(&root);
            // trouble with the local registry itself is not a verdict about wac: exit 2 (undecided)
            if let Some(m) = e.strip_prefix("INFRA: ") { println!("C20-REGISTRY could not run: {m}"); std::process::exit(2); }
            println!("C20-BOUNDED VIOLATION: {e}"); std::process::exit(1);
        }
    }
    let _ = std::fs::remove_dir_all(&root);
    if samples.is_empty() { samples.push("(none)".into()); }
    println!("C20-REGISTRY ok {{\"bounded\": true, \"max_keys\": {maxk}, \"evaluations\": {requests}, \"distinct_nontrivial\": {keys_checked}, \"samples\": {:?}}}", samples);
}
