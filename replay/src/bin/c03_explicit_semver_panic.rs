//! Replay: an explicit import `a:b/c@0.2.1` and an implicit (unsatisfied argument) import `a:b/c@0.2.0` whose instance
//! types conflict (export `f` with different function types).  CompositionGraph::encode aggregates the explicit import
//! with `.unwrap()`: the semver-compatible merge fails and the encoder PANICS instead of returning an EncodeError.
//! Exit 1 = panic observed (or any outcome other than Ok / Err).
use wac_graph::{CompositionGraph, EncodeOptions};
use wac_types::{FuncType, Interface, ItemKind, Package, PrimitiveType, ValueType};

fn main() {
    let mut graph = CompositionGraph::new();
    let bytes = wat::parse_str(r#"(component
        (import "a:b/c@0.2.0" (instance (export "f" (func))))
    )"#).unwrap();
    let pkg = Package::from_bytes("t:p", None, bytes, graph.types_mut()).unwrap();
    let pid = graph.register_package(pkg).unwrap();
    let _inst = graph.instantiate(pid);
    // explicit import on the same track with a conflicting definition of `f`
    let f2 = graph.types_mut().add_func_type(FuncType { params: Default::default(), result: Some(ValueType::Primitive(PrimitiveType::U8)), is_async: false });
    let iface = graph.types_mut().add_interface(Interface { id: Some("a:b/c@0.2.1".to_string()), uses: Default::default(), exports: [("f".to_string(), ItemKind::Func(f2))].into_iter().collect() });
    graph.import("a:b/c@0.2.1", ItemKind::Instance(iface)).unwrap();
    let r = std::panic::catch_unwind(std::panic::AssertUnwindSafe(|| graph.encode(EncodeOptions { validate: false, ..Default::default() })));
    match r {
        Ok(Ok(b)) => println!("encoded {} bytes", b.len()),
        Ok(Err(e)) => println!("encode returned an error (fine): {e:#}"),
        Err(_) => { println!("C03-REPLAY: CompositionGraph::encode PANICKED on an explicit import that is semver-compatible with, but type-incompatible to, an implicit import"); std::process::exit(1); }
    }
}
