//! BOUNDED validation of an ASSUMED dependency contract (unit U1): `semver::Version::parse`.
//! For every string over a small alphabet up to a length bound: if the real parser accepts it, the string must have
//! the shape the contract states (canonical decimal MAJOR.MINOR.PATCH, then nothing, '-' pre-release or '+' build;
//! `pre` empty exactly when no '-' follows the core), and `Version: Ord` must be a strict total order on the accepted
//! values (irreflexive, transitive, total).  Exit 0 = the assumed contract agrees with the real crate on this scope.
//! usage: a_semver_shape [max_len]
use semver::Version;
fn dec(n: u64) -> String { n.to_string() }
fn main() {
    let max_len: usize = std::env::args().nth(1).and_then(|s| s.parse().ok()).unwrap_or(7);
    let alphabet = ['0', '1', '2', '9', '.', '-', '+', 'a'];
    let mut stack = vec![String::new()];
    let (mut tried, mut accepted) = (0u64, 0u64);
    let mut vals: Vec<Version> = vec![];
    while let Some(s) = stack.pop() {
        tried += 1;
        if let Ok(v) = Version::parse(&s) {
            accepted += 1;
            let core = format!("{}.{}.{}", dec(v.major), dec(v.minor), dec(v.patch));
            let ok = s.starts_with(&core)
                && (s.len() == core.len() || s.as_bytes()[core.len()] == b'-' || s.as_bytes()[core.len()] == b'+')
                && (v.pre.is_empty() == !(s.len() > core.len() && s.as_bytes()[core.len()] == b'-'));
            if !ok { println!("SEMVER-ASSUMPTION VIOLATION: Version::parse accepts {s:?} = {v:?} which does not have the assumed shape"); std::process::exit(1); }
            if vals.len() < 400 { vals.push(v); }
        }
        if s.len() < max_len { for c in alphabet { let mut t = s.clone(); t.push(c); stack.push(t); } }
    }
    // strict total order on a sample of the accepted values
    for a in &vals { if a < a { println!("SEMVER-ASSUMPTION VIOLATION: {a} < {a}"); std::process::exit(1); } }
    for a in vals.iter().take(60) { for b in vals.iter().take(60) {
        if !(a < b || b < a || a == b) { println!("SEMVER-ASSUMPTION VIOLATION: {a} and {b} are incomparable"); std::process::exit(1); }
        for c in vals.iter().take(60) { if a < b && b < c && !(a < c) { println!("SEMVER-ASSUMPTION VIOLATION: < not transitive on {a}, {b}, {c}"); std::process::exit(1); } }
    } }
    println!("SEMVER-ASSUMPTION ok {{\"bounded\": true, \"alphabet\": \"0129.-+a\", \"max_len\": {max_len}, \"strings\": {tried}, \"accepted\": {accepted}, \"order_triples\": 216000}}");
}
