//! BOUNDED stand-in for the structural part of TypeAggregator (merge_interface / remap_* are closure- and `continue`-heavy,
//! outside Verus's dialect; unit U5 proves the naming part of `aggregate` and the leaf merges and ASSUMES a frame for the
//! structural merges).  Every multiset of 2..N requirements drawn from a small universe, in EVERY order, is aggregated by
//! the REAL TypeAggregator (each requirement from its own `Types` collection) and compared with the property statement:
//!   * requirements with the same name or semver-compatible names form one group; the aggregation fails exactly when
//!     some group contains two instance requirements that define the same export with different function types, or
//!     items of different sorts (in EVERY order: failure does not depend on the order);
//!   * otherwise there is exactly one import per group, named for the highest version in the group, every member's
//!     name is redirected to it, its type has the union of the members' exports, and it SATISFIES every member (checked
//!     with the real SubtypeChecker, whose contract unit U3 proves);
//!   * the result does not depend on the order (same import names up to order, same export sets); aggregating every
//!     requirement a second time changes nothing (idempotent).
//! Universe: names a:b/c@0.2.0, a:b/c@0.2.1, a:b/c@0.3.0, a:b/c@1.0.0, a:b/c@1.2.0, a:b/c@0.21.0 and a:b/c@12.0.0 (other tracks
//! whose names have a track key of the former as a textual prefix), plain `x`; instance requirements with
//! exports f: F1|F2|absent, g: F1|F2|absent (f and g share one type id when they have the same type); for `x` also the bare functions F1 and F2.
//! Exit 0 = agreement, 1 = a disagreeing multiset/order is printed.   usage: c09_merge [max_contributors]
use std::collections::{BTreeMap, BTreeSet, HashSet};
use wac_types::{FuncType, Interface, ItemKind, PrimitiveType, SubtypeChecker, TypeAggregator, Types, ValueType};

#[derive(Clone, Copy, PartialEq, Eq, Debug, PartialOrd, Ord)]
enum Req { Inst { f: u8, g: u8 }, Func(u8) }   // f, g: 0 absent, 1 F1, 2 F2

const NAMES: [&str; 8] = ["a:b/c@0.2.0", "a:b/c@0.2.1", "a:b/c@0.3.0", "a:b/c@1.0.0", "a:b/c@1.2.0", "x", "a:b/c@0.21.0", "a:b/c@12.0.0"];
fn group_of(n: usize) -> usize { match n { 0 | 1 => 0, 2 => 1, 3 | 4 => 2, 5 => 3, 6 => 4, _ => 5 } }

fn build(types: &mut Types, name: &str, r: Req) -> ItemKind {
    let mut func = |types: &mut Types, k: u8| types.add_func_type(FuncType {
        params: Default::default(), result: if k == 2 { Some(ValueType::Primitive(PrimitiveType::U8)) } else { None }, is_async: false });
    match r {
        Req::Func(k) => ItemKind::Func(func(types, k)),
        Req::Inst { f, g } => {
            let mut exports = indexmap::IndexMap::new();
            // exports of the same function type share ONE type id, as decoded packages do
            let fid = if f != 0 { Some(func(types, f)) } else { None };
            if let Some(id) = fid { exports.insert("f".to_string(), ItemKind::Func(id)); }
            if g != 0 { let id = if g == f { fid.unwrap() } else { func(types, g) }; exports.insert("g".to_string(), ItemKind::Func(id)); }
            let id = if name.contains('/') { Some(name.to_string()) } else { None };
            ItemKind::Instance(types.add_interface(Interface { id, uses: Default::default(), exports }))
        }
    }
}

fn permutations(n: usize) -> Vec<Vec<usize>> {
    fn rec(cur: &mut Vec<usize>, used: &mut Vec<bool>, n: usize, out: &mut Vec<Vec<usize>>) {
        if cur.len() == n { out.push(cur.clone()); return; }
        for i in 0..n { if !used[i] { used[i] = true; cur.push(i); rec(cur, used, n, out); cur.pop(); used[i] = false; } }
    }
    let mut out = vec![]; rec(&mut vec![], &mut vec![false; n], n, &mut out); out
}

/// what the property statement gives for a multiset: Err(()) on a conflict, else per group (canonical name, f, g | func)
fn reference(ms: &[(usize, Req)]) -> Result<BTreeMap<usize, (usize, Req)>, ()> {
    let mut out: BTreeMap<usize, (usize, Req)> = BTreeMap::new();
    for (n, r) in ms {
        let g = group_of(*n);
        match out.get(&g).copied() {
            None => { out.insert(g, (*n, *r)); }
            Some((cn, cr)) => {
                let merged = match (cr, *r) {
                    (Req::Inst { f: f1, g: g1 }, Req::Inst { f: f2, g: g2 }) => {
                        if f1 != 0 && f2 != 0 && f1 != f2 { return Err(()); }
                        if g1 != 0 && g2 != 0 && g1 != g2 { return Err(()); }
                        Req::Inst { f: f1.max(f2), g: g1.max(g2) }
                    }
                    (Req::Func(a), Req::Func(b)) => { if a != b { return Err(()); } Req::Func(a) }
                    _ => return Err(()),
                };
                // the highest version names the import (names of one group are listed in ascending version order)
                out.insert(g, (cn.max(*n), merged));
            }
        }
    }
    Ok(out)
}

fn describe(types: &Types, k: ItemKind) -> Option<Req> {
    match k {
        ItemKind::Func(id) => Some(Req::Func(if types[id].result.is_some() { 2 } else { 1 })),
        ItemKind::Instance(id) => {
            let e = &types[id].exports;
            let get = |n: &str| match e.get(n) { None => Some(0u8), Some(ItemKind::Func(id)) => Some(if types[*id].result.is_some() { 2 } else { 1 }), _ => None };
            if e.keys().any(|k| k != "f" && k != "g") { return None; }
            Some(Req::Inst { f: get("f")?, g: get("g")? })
        }
        _ => None,
    }
}

fn main() {
    let maxn: usize = std::env::args().nth(1).and_then(|s| s.parse().ok()).unwrap_or(3);
    let mut pool: Vec<(usize, Req)> = vec![];
    for n in 0..NAMES.len() {
        for f in 0..3u8 { for g in 0..3u8 { pool.push((n, Req::Inst { f, g })); } }
        if n == 5 { pool.push((n, Req::Func(1))); pool.push((n, Req::Func(2))); }
        if n >= 6 { pool.truncate(pool.len() - 7); }   // the two prefix-confusable names: two requirement shapes each are enough
    }
    let (mut multisets, mut runs, mut conflicts) = (0u64, 0u64, 0u64);
    // multisets as non-decreasing index tuples
    let mut idx: Vec<usize> = vec![];
    fn next_tuples(pool: usize, k: usize) -> Vec<Vec<usize>> {
        fn rec(start: usize, pool: usize, k: usize, cur: &mut Vec<usize>, out: &mut Vec<Vec<usize>>) {
            if cur.len() == k { out.push(cur.clone()); return; }
            for i in start..pool { cur.push(i); rec(i, pool, k, cur, out); cur.pop(); }
        }
        let mut out = vec![]; rec(0, pool, k, &mut vec![], &mut out); out
    }
    let _ = &mut idx;
    for k in 2..=maxn {
        // size 4 and above: sample (every 7th multiset) to keep the quick tier short
        let tuples = next_tuples(pool.len(), k);
        let stride = if k >= 4 { 7 } else { 1 };
        for t in tuples.iter().step_by(stride) {
            let ms: Vec<(usize, Req)> = t.iter().map(|i| pool[*i]).collect();
            // at least two members must share a group, otherwise nothing merges (keep a few of those too)
            let groups: BTreeSet<usize> = ms.iter().map(|(n, _)| group_of(*n)).collect();
            if groups.len() == ms.len() && !ms.iter().any(|(n, _)| *n >= 6) && t.iter().sum::<usize>() % 5 != 0 { continue; }
            multisets += 1;
            let want = reference(&ms);
            if want.is_err() { conflicts += 1; }
            let mut first: Option<BTreeMap<String, Req>> = None;
            for perm in permutations(ms.len()) {
                runs += 1;
                let order: Vec<(usize, Req)> = perm.iter().map(|i| ms[*i]).collect();
                let colls: Vec<(Types, ItemKind)> = order.iter().map(|(n, r)| { let mut t = Types::default(); let k = build(&mut t, NAMES[*n], *r); (t, k) }).collect();
                let mut cache = HashSet::new();
                let mut checker = SubtypeChecker::new(&mut cache);
                let mut agg = Some(TypeAggregator::new());
                let mut failed = false;
                for ((n, _), (t, k)) in order.iter().zip(colls.iter()) {
                    match agg.take().unwrap().aggregate(NAMES[*n], t, *k, &mut checker) { Ok(a) => agg = Some(a), Err(_) => { failed = true; break; } }
                }
                let show = || format!("requirements (in this order) {:?}", order.iter().map(|(n, r)| (NAMES[*n], *r)).collect::<Vec<_>>());
                match (&want, failed) {
                    (Err(()), true) => continue,
                    (Err(()), false) => { println!("C09-BOUNDED VIOLATION: conflicting requirements were merged: {}", show()); std::process::exit(1); }
                    (Ok(_), true) => { println!("C09-BOUNDED VIOLATION: compatible requirements failed to merge: {}", show()); std::process::exit(1); }
                    (Ok(w), false) => {
                        let a = agg.unwrap();
                        let got: BTreeMap<String, Option<Req>> = a.imports().map(|(n, k)| (n.to_string(), describe(a.types(), k))).collect();
                        let exp: BTreeMap<String, Option<Req>> = w.values().map(|(n, r)| (NAMES[*n].to_string(), Some(*r))).collect();
                        if got != exp { println!("C09-BOUNDED VIOLATION: merged imports {:?}, the property gives {:?}; {}", got, exp, show()); std::process::exit(1); }
                        for ((n, _), (t, k)) in order.iter().zip(colls.iter()) {
                            let canon = a.canonical_import_name(NAMES[*n]);
                            let expc = NAMES[w[&group_of(*n)].0];
                            if canon != expc { println!("C09-BOUNDED VIOLATION: canonical name of {} is {}, expected {}; {}", NAMES[*n], canon, expc, show()); std::process::exit(1); }
                            let merged = a.imports().find(|(m, _)| *m == canon).map(|(_, k)| k).unwrap();
                            // the merged type satisfies the contributor
                            let mut c2 = HashSet::new();
                            let mut chk = SubtypeChecker::new(&mut c2);
                            if let Err(e) = chk.is_subtype(merged, a.types(), *k, t) {
                                println!("C09-BOUNDED VIOLATION: the merged import {} does not satisfy contributor {} ({:#}); {}", canon, NAMES[*n], e, show()); std::process::exit(1);
                            }
                        }
                        // idempotent: aggregate everything once more
                        let mut a2 = Some(a);
                        for ((n, _), (t, k)) in order.iter().zip(colls.iter()) {
                            match a2.take().unwrap().aggregate(NAMES[*n], t, *k, &mut checker) { Ok(x) => a2 = Some(x), Err(e) => { println!("C09-BOUNDED VIOLATION: re-aggregating an already merged requirement failed ({:#}); {}", e, show()); std::process::exit(1); } }
                        }
                        let a2 = a2.unwrap();
                        let again: BTreeMap<String, Option<Req>> = a2.imports().map(|(n, k)| (n.to_string(), describe(a2.types(), k))).collect();
                        if again != exp { println!("C09-BOUNDED VIOLATION: aggregation is not idempotent: {:?} then {:?}; {}", exp, again, show()); std::process::exit(1); }
                        // order independence
                        let flat: BTreeMap<String, Req> = got.iter().map(|(n, r)| (n.clone(), r.unwrap())).collect();
                        match &first { None => first = Some(flat), Some(f0) => if *f0 != flat { println!("C09-BOUNDED VIOLATION: the result depends on the order: {:?} vs {:?}; {}", f0, flat, show()); std::process::exit(1); } }
                    }
                }
            }
        }
    }
    println!("C09-MERGE ok {{\"bounded\": true, \"max_contributors\": {maxn}, \"multisets\": {multisets}, \"conflicting\": {conflicts}, \"aggregation_runs\": {runs}}}");
}
