//! BOUNDED check of C16 ("same inputs, same bytes": parsing, resolving, encoding and printing are pure functions of their
//! inputs - in the same process, on a clone of the graph, and in a fresh process with a different hash seed).  This is a
//! two-run (hyper)property: a function contract speaks about one run and Verus's model of HashMap has no iteration order,
//! so nothing within reach can express it; the stand-in executes it.  A worker (this program with `--worker`) builds a
//! fixed, seeded family of inputs and prints one digest line per output:
//!   * random DAG compositions (several instantiations, shared aliases, explicit / implicit imports, exports), including
//!     histories that define base types after their dependants and many same-rank independent nodes, encoded in both
//!     dependency modes, and encoded again from a clone of the graph;
//!   * compositions whose implicit imports merge across semver-compatible names and interfaces (aggregator order), and
//!     conflicting ones (the diagnostic text is digested);
//!   * two packages sharing a component-typed and an instance-typed import, the second needing several items more (the
//!     order of the merged type's items);
//!   * WAC documents: parse -> print, resolve -> encode, and the diagnostics of ill-formed documents.
//! The parent runs the worker in N fresh processes (std's per-process hash randomisation) and compares the lines.
//! Exit 0 = identical everywhere, 1 = a differing output is printed.   usage: c16_repro [processes] [compositions]
use indexmap::IndexMap;
use wac_graph::{CompositionGraph, EncodeOptions, NodeId};
use wac_parser::{Document, DocumentPrinter};
use wac_types::{BorrowedPackageKey, DefinedType, FuncType, ItemKind, Package, PrimitiveType, Type, ValueType};

fn fnv(b: &[u8]) -> u64 { let mut h = 0xcbf29ce484222325u64; for x in b { h ^= *x as u64; h = h.wrapping_mul(0x100000001b3); } h }
struct Rng(u64);
impl Rng { fn next(&mut self) -> u64 { self.0 = self.0.wrapping_mul(6364136223846793005).wrapping_add(1442695040888963407); self.0 >> 33 } fn below(&mut self, n: usize) -> usize { (self.next() % n as u64) as usize } }

fn pkg(imports: &[(&str, &[&str])], funcs: &[&str], exports: &[&str]) -> Vec<u8> {
    let mut s = String::from("(component\n");
    for (n, ex) in imports { s.push_str(&format!("  (import \"{n}\" (instance")); for e in ex.iter() { s.push_str(&format!(" (export \"{e}\" (func))")); } s.push_str("))\n"); }
    for n in funcs { s.push_str(&format!("  (import \"{n}\" (func))\n")); }
    s.push_str("  (core module $m (func (export \"f\")))\n  (core instance $i (instantiate $m))\n  (func $f (canon lift (core func $i \"f\")))\n");
    for e in exports { s.push_str(&format!("  (export \"{e}\" (func $f))\n")); }
    s.push(')');
    wat::parse_str(&s).unwrap()
}

fn worker(n: usize) {
    let pkgs: Vec<(&str, Vec<u8>)> = vec![
        ("t:k", pkg(&[], &["a", "b"], &["f", "g"])),
        ("t:l", pkg(&[("a:b/c@0.2.0", &["f"])], &["a"], &["h"])),
        ("t:m", pkg(&[("a:b/c@0.2.1", &["f", "g"]), ("x:y/z@1.0.0", &["q"])], &[], &["h"])),
        ("t:n", pkg(&[("a:b/c@0.2.3", &["g"]), ("x:y/z@1.2.0", &["q", "r"])], &["b"], &["k"])),
    ];
    let mut r = Rng(20260923);
    for c in 0..n {
        let mut g = CompositionGraph::new();
        let mut pids = vec![];
        for (name, bytes) in &pkgs { let p = Package::from_bytes(name, None, bytes.clone(), g.types_mut()).unwrap(); pids.push(g.register_package(p).unwrap()); }
        let fty = g.types_mut().add_func_type(FuncType { params: Default::default(), result: None, is_async: false });
        // type definitions, sometimes dependants before their base types
        if c % 3 == 0 {
            let a = g.types_mut().add_defined_type(DefinedType::Alias(ValueType::Primitive(PrimitiveType::U8)));
            let b = g.types_mut().add_defined_type(DefinedType::List(ValueType::Defined(a)));
            let t = g.types_mut().add_defined_type(DefinedType::Tuple(vec![ValueType::Defined(a), ValueType::Defined(b)]));
            let order: [usize; 3] = [[2, 1, 0], [0, 1, 2], [1, 2, 0]][r.below(3)];
            let defs = [("ta", a), ("tb", b), ("tc", t)];
            for i in order { let _ = g.define_type(defs[i].0, Type::Value(ValueType::Defined(defs[i].1))); }
        }
        // several dependants defined BEFORE their common base type (the base's dependency edges are added when it arrives)
        if c % 4 == 1 {
            let base = g.types_mut().add_defined_type(DefinedType::Alias(ValueType::Primitive(PrimitiveType::U32)));
            for k in 0..6 { let l = g.types_mut().add_defined_type(DefinedType::List(ValueType::Defined(base))); let _ = g.define_type(format!("dep{k}"), Type::Value(ValueType::Defined(l))); }
            let _ = g.define_type("base", Type::Value(ValueType::Defined(base)));
        }
        let mut funcs: Vec<NodeId> = vec![];
        for x in 0..r.below(3) { funcs.push(g.import(format!("x{x}"), ItemKind::Func(fty)).unwrap()); }
        let mut insts: Vec<(NodeId, usize)> = vec![];
        for _ in 0..2 + r.below(6) {
            let k = r.below(pkgs.len());
            let inst = g.instantiate(pids[k]);
            let names: &[&str] = match k { 0 => &["a", "b"], 1 => &["a"], 3 => &["b"], _ => &[] };
            for a in names { if r.below(2) == 0 && !funcs.is_empty() { let src = funcs[r.below(funcs.len())]; let _ = g.set_instantiation_argument(inst, a, src); } }
            let ex: &[&str] = match k { 0 => &["f", "g"], 1 | 2 => &["h"], _ => &["k"] };
            if r.below(2) == 0 { funcs.push(g.alias_instance_export(inst, ex[r.below(ex.len())]).unwrap()); }
            insts.push((inst, k));
        }
        for e in 0..r.below(4) { if !funcs.is_empty() { let _ = g.export(funcs[r.below(funcs.len())], format!("out{e}")); } }
        // removal histories: an instance with several exported aliases is removed (with its dependants), then new
        // independent nodes are created (identifiers are reused) and the survivors keep their exports
        if c % 3 == 2 {
            let victim = g.instantiate(pids[0]);
            let al: Vec<NodeId> = ["f", "g"].iter().map(|n| g.alias_instance_export(victim, n).unwrap()).collect();
            for (i, a) in al.iter().enumerate() { let _ = g.export(*a, format!("gone{i}")); }
            let keep = g.instantiate(pids[1]); let kh = g.alias_instance_export(keep, "h").unwrap(); let _ = g.export(kh, "kept-a");
            let keep2 = g.instantiate(pids[2]); let kh2 = g.alias_instance_export(keep2, "h").unwrap(); let _ = g.export(kh2, "kept-b");
            if c % 2 == 0 { g.remove_node(victim); } else { g.unregister_package(pids[0]); let p = Package::from_bytes("t:k", None, pkgs[0].1.clone(), g.types_mut()).unwrap(); pids[0] = g.register_package(p).unwrap(); }
            for k in 0..3 { let n = g.instantiate(pids[3]); let a = g.alias_instance_export(n, "k").unwrap(); let _ = g.export(a, format!("fresh{k}")); }
        }
        for define in [true, false] {
            let digest = |g: &CompositionGraph| match g.encode(EncodeOptions { define_components: define, validate: false, processor: None }) { Ok(b) => format!("ok {:016x} {}", fnv(&b), b.len()), Err(e) => format!("err {:016x} {}", fnv(format!("{e:#}").as_bytes()), format!("{e}").chars().take(60).collect::<String>()) };
            let (d1, d2) = (digest(&g), digest(&g));
            let d3 = digest(&g.clone());
            println!("comp {c} define={define} {d1}");
            if d1 != d2 { println!("comp {c} define={define} SECOND-ENCODING-DIFFERS {d2}"); }
            if d1 != d3 { println!("comp {c} define={define} CLONE-DIFFERS {d3}"); }
        }
    }
    // component-typed (and instance-typed) imports shared by two packages, the second needing several items the first
    // does not mention: the merged type lists them in a fixed order
    {
        let dep = |exports: &[&str], imports: &[&str]| { let mut s = String::from("(component\n  (import \"dep\" (component"); for i in imports { s.push_str(&format!(" (import \"{i}\" (func))")); } for e in exports { s.push_str(&format!(" (export \"{e}\" (func))")); } s.push_str("))\n  (import \"inst\" (instance"); for e in exports { s.push_str(&format!(" (export \"{e}\" (func))")); } s.push_str("))\n)"); wat::parse_str(&s).unwrap() };
        let small = dep(&["a"], &["i"]);
        let big = dep(&["a", "b", "c", "d", "e", "f"], &["i", "j", "k", "l", "m"]);
        for order in [[0usize, 1], [1, 0]] {
            let mut g = CompositionGraph::new();
            let ps = [Package::from_bytes("t:small", None, small.clone(), g.types_mut()).unwrap(), Package::from_bytes("t:big", None, big.clone(), g.types_mut()).unwrap()];
            let ids: Vec<_> = ps.into_iter().map(|p| g.register_package(p).unwrap()).collect();
            for k in order { g.instantiate(ids[k]); }
            // (dependencies embedded only: writing the component TYPE of a package that imports a component panics - the
            // recorded C08 finding)
            for define in [true] {
                match g.encode(EncodeOptions { define_components: define, validate: false, processor: None }) { Ok(b) => println!("merged-component-import order={order:?} define={define} ok {:016x} {}", fnv(&b), b.len()), Err(e) => println!("merged-component-import order={order:?} define={define} err {:016x}", fnv(format!("{e:#}").as_bytes())) }
            }
        }
    }
    let docs = [
        "package test:doc;\nlet k = new t:k { ... };\nlet l = new t:l { a: k.f, ... };\nlet m = new t:m { ... };\nlet n = new t:n { b: k.g, ... };\nexport l.h;\nexport n.k;\nexport m.h as other;\n",
        "package test:doc;\n/// doc\ninterface i { type t = u8; record r { a: t, b: list<t> } f: func(x: r) -> option<t>; }\nworld w { import i; export g: func(); }\nimport x: func();\nlet k = new t:k { a: x, b: x };\nexport k...;\n",
        "package test:doc;\nlet a = new t:l { ... };\nlet b = new t:m { ... };\nlet c = new t:n { ... };\nexport a.h;\n",
        "package test:doc;\nlet a = new t:k { a: b, ... };\n",
        "package test:doc;\nlet a = new t:k { ... };\nlet a = new t:k { ... };\n",
        "package test:doc;\nexport new t:zz { };\n",
    ];
    for (di, src) in docs.iter().enumerate() {
        let doc = Document::parse(src).unwrap();
        let mut printed = String::new();
        DocumentPrinter::new(&mut printed, src, None).document(&doc).unwrap();
        println!("doc {di} printed {:016x}", fnv(printed.as_bytes()));
        let mut packages: IndexMap<BorrowedPackageKey, Vec<u8>> = IndexMap::new();
        for (n, b) in &pkgs { packages.insert(BorrowedPackageKey::from_name_and_version(n, None), b.clone()); }
        match doc.resolve(packages) {
            Ok(res) => for define in [true, false] { match res.encode(EncodeOptions { define_components: define, validate: false, processor: None }) { Ok(b) => println!("doc {di} define={define} ok {:016x} {}", fnv(&b), b.len()), Err(e) => println!("doc {di} define={define} err {:016x}", fnv(format!("{e:#}").as_bytes())) } },
            Err(e) => println!("doc {di} diagnostic {:016x} {}", fnv(format!("{e:?}").as_bytes()), e),
        }
    }
}

fn main() {
    let args: Vec<String> = std::env::args().collect();
    if args.get(1).map(|s| s == "--worker").unwrap_or(false) { worker(args[2].parse().unwrap()); return; }
    let procs: usize = args.get(1).and_then(|s| s.parse().ok()).unwrap_or(4);
    let n: usize = args.get(2).and_then(|s| s.parse().ok()).unwrap_or(120);
    let exe = std::env::current_exe().unwrap();
    let mut outs: Vec<Vec<String>> = vec![];
    for _ in 0..procs {
        let o = std::process::Command::new(&exe).args(["--worker", &n.to_string()]).output().unwrap();
        if !o.status.success() { println!("C16-BOUNDED VIOLATION: a worker process failed: {}", String::from_utf8_lossy(&o.stderr).chars().take(400).collect::<String>()); std::process::exit(1); }
        outs.push(String::from_utf8_lossy(&o.stdout).lines().map(|l| l.to_string()).collect());
    }
    for l in &outs[0] { if l.contains("DIFFERS") { println!("C16-BOUNDED VIOLATION: within one process: {l}"); std::process::exit(1); } }
    for (p, o) in outs.iter().enumerate().skip(1) {
        if o.len() != outs[0].len() { println!("C16-BOUNDED VIOLATION: process {p} produced {} outputs, process 0 produced {}", o.len(), outs[0].len()); std::process::exit(1); }
        for (a, b) in outs[0].iter().zip(o.iter()) { if a != b { println!("C16-BOUNDED VIOLATION: outputs differ between fresh processes (different hash seeds):\n  process 0: {a}\n  process {p}: {b}"); std::process::exit(1); } }
    }
    let ok = outs[0].iter().filter(|l| l.contains(" ok ")).count();
    println!("C16-REPRO ok {{\"bounded\": true, \"evaluations\": {}, \"distinct_nontrivial\": {ok}, \"processes\": {procs}, \"outputs_per_process\": {}, \"samples\": {:?}}}", outs[0].len() * procs, outs[0].len(), outs[0].iter().take(2).collect::<Vec<_>>());
}
