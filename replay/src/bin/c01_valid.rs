//! BOUNDED check of C01 ("whenever encoding a composition succeeds, the bytes are a well-formed component accepted by an
//! independent validator, whether or not validation was requested and whether dependencies are embedded or imported; a
//! composition assembled from accepted operations never fails with a post-hoc validation error").  Validity is
//! acceptance by the component-model validator: no contract on wac functions can state it without formalising the
//! validator (DESIGN.md), and the encoder (encoding.rs TypeEncoder, graph.rs CompositionGraphEncoder) is closure / builder
//! code outside the dialect - so this is a bounded stand-in only.
//! Library: WIT-derived components (records, variants, enums, flags, lists, options, results, tuples, aliases, a
//! resource with constructor / method / static, own and borrow handles, cross-interface `use`, a versioned package,
//! anonymous compound types first met in every position of a result / option / tuple / list / variant case / record field)
//! built with wit-component, plus hand-shaped WAT components.  Compositions: every choice of (wired | implicit) for each
//! argument of a producer -> consumer -> app chain with sharing, through the graph API and through equivalent WAC
//! documents, x dependencies embedded | imported x validation requested | not.  Every output is validated here with
//! wasmparser (all features), independently of the flag; `EncodeError::ValidationFailure` must never occur.
//! Exit 0 = all outputs valid, 1 = an invalid output / late validation failure is printed.
use indexmap::IndexMap;
use wac_graph::{CompositionGraph, EncodeError, EncodeOptions};
use wac_parser::Document;
use wac_types::{BorrowedPackageKey, Package};

const WIT: &str = r#"package lib:types@1.0.0;
interface shapes {
  record point { x: s32, y: s32 }
  variant shape { circle(u32), poly(list<point>), none }
  enum color { red, green, blue }
  flags perms { read, write }
  type name = string;
  resource canvas {
    constructor(n: name);
    draw: func(s: shape) -> result<u32, string>;
    make: static func(p: perms) -> canvas;
  }
  area: func(s: shape) -> option<u64>;
  take: func(c: canvas) -> tuple<u8, name>;
}
interface render {
  use shapes.{shape, canvas, color};
  paint: func(c: borrow<canvas>, s: shape, col: color) -> tuple<u8, u8>;
  fresh: func() -> canvas;
}
interface errs { variant error { a, b(string) } }
interface ia { use errs.{error}; f: func() -> result<u8, error>; }
interface ib { record error { code: u32, text: string } g: func() -> result<u8, error>; }
interface odd {
  f: func() -> result<u32, list<string>>;
  record r { a: result<_, option<u64>>, b: option<result<list<u8>>> }
  g: func(x: r) -> result<list<u8>, tuple<u8, string>>;
  h: func(x: list<tuple<option<u8>, list<list<u16>>>>) -> result<result<u8, list<u16>>, option<list<string>>>;
  variant v { a(result<tuple<u8, u8>, list<r>>), b(option<option<string>>) }
  k: func(x: v) -> tuple<list<v>, option<r>>;
}
interface c2 { resource r; mk: func() -> r; }
interface z2 { use c2.{r}; f: func(x: r); }
interface ra { resource r; }
interface rb { resource r; }
world expuse { export c2; export z2; }
world sameres { use ra.{r}; use rb.{r as r2}; import f: func(x: r, y: r2); export go: func(); }
world sameres-iface { import ra; import rb; import both: interface { use ra.{r}; use rb.{r as r2}; f: func(x: r, y: r2); } export go: func(); }
world producer { export shapes; }
world multi { import ia; import ib; import shapes; import odd; export go: func() -> u8; }
world consumer { import shapes; export render; }
world app { import render; import shapes; export run: func() -> result<_, string>; }
"#;

fn component(world: &str) -> Vec<u8> {
    let mut resolve = wit_parser::Resolve::new();
    let pkg = resolve.push_str("lib.wit", WIT).unwrap();
    let w = resolve.select_world(&[pkg], Some(world)).unwrap();
    let mut module = wit_component::dummy_module(&resolve, w, wit_parser::ManglingAndAbi::Standard32);
    wit_component::embed_component_metadata(&mut module, &resolve, w, wit_component::StringEncoding::UTF8).unwrap();
    wit_component::ComponentEncoder::default().module(&module).unwrap().validate(true).encode().unwrap()
}

fn validate(bytes: &[u8]) -> Result<(), String> {
    wasmparser::Validator::new_with_features(wasmparser::WasmFeatures::all()).validate_all(bytes).map(|_| ()).map_err(|e| e.to_string())
}

fn main() {
    let (producer, consumer, app) = (component("producer"), component("consumer"), component("app"));
    let multi = component("multi");
    let shaped = wat::parse_str(r#"(component (import "n" (func (param "x" (list u8)) (result (option string)))) (core module $m (func (export "f"))) (core instance $i (instantiate $m)) (func $f (canon lift (core func $i "f"))) (export "f" (func $f)))"#).unwrap();
    let shapes = "lib:types/shapes@1.0.0"; let render = "lib:types/render@1.0.0";
    let (mut outputs, mut rejected) = (0u64, 0u64);
    let mut distinct = std::collections::BTreeSet::new();
    let mut samples = vec![];
    let (mut late_resource, mut first_late): (u64, Option<String>) = (0, None);
    let (mut late_export, mut first_export): (u64, Option<String>) = (0, None);
    // ---- through the graph API: bit 0: consumer.shapes wired to producer; bit 1: app.render wired to consumer; bit 2: app.shapes
    //      wired to producer; bit 3: a second consumer sharing the same producer export; bit 4: the shaped WAT component too
    for choice in 0u32..32 {
        let mut g = CompositionGraph::new();
        let mut reg = |g: &mut CompositionGraph, name: &str, bytes: &[u8]| { let p = Package::from_bytes(name, None, bytes.to_vec(), g.types_mut()).unwrap(); g.register_package(p).unwrap() };
        let (pp, pc, pa) = (reg(&mut g, "t:producer", &producer), reg(&mut g, "t:consumer", &consumer), reg(&mut g, "t:app", &app));
        let ip = g.instantiate(pp); let ic = g.instantiate(pc); let ia = g.instantiate(pa);
        let p_shapes = g.alias_instance_export(ip, shapes).unwrap();
        let mut ops_ok = true;
        if choice & 1 != 0 { ops_ok &= g.set_instantiation_argument(ic, shapes, p_shapes).is_ok(); }
        if choice & 2 != 0 { let r = g.alias_instance_export(ic, render).unwrap(); ops_ok &= g.set_instantiation_argument(ia, render, r).is_ok(); }
        if choice & 4 != 0 { ops_ok &= g.set_instantiation_argument(ia, shapes, p_shapes).is_ok(); }
        if choice & 8 != 0 { let ic2 = g.instantiate(pc); ops_ok &= g.set_instantiation_argument(ic2, shapes, p_shapes).is_ok(); let r2 = g.alias_instance_export(ic2, render).unwrap(); ops_ok &= g.export(r2, "second-render").is_ok(); }
        if choice & 16 != 0 { let ps = reg(&mut g, "t:shaped", &shaped); let is = g.instantiate(ps); let f = g.alias_instance_export(is, "f").unwrap(); ops_ok &= g.export(f, "f").is_ok(); }
        let run = g.alias_instance_export(ia, "run").unwrap(); ops_ok &= g.export(run, "run").is_ok();
        ops_ok &= g.export(p_shapes, shapes).is_ok();
        if !ops_ok { println!("C01-BOUNDED VIOLATION: a graph operation of the construction (choice {choice:#07b}) was refused"); std::process::exit(1); }
        for define in [true, false] { for val in [true, false] {
            match g.encode(EncodeOptions { define_components: define, validate: val, processor: None }) {
                Ok(bytes) => {
                    outputs += 1; distinct.insert((choice, define));
                    if let Err(e) = validate(&bytes) {
                        if e.contains("resource types are not the same") { late_resource += 1; if first_late.is_none() { first_late = Some(format!("graph API choice {choice:#07b}, validation not requested: invalid bytes returned ({})", e.lines().next().unwrap_or(""))); } continue; }
                        if e.contains("not valid to be used as export") { late_export += 1; continue; }
                        println!("C01-BOUNDED VIOLATION: the encoded composition (graph API, choice {choice:#07b}, dependencies {}, validation {}) is rejected by the validator: {e}", if define { "embedded" } else { "imported" }, if val { "requested" } else { "not requested" }); std::process::exit(1);
                    }
                    if samples.len() < 2 { samples.push(format!("graph choice {choice:#07b} embedded={define} validate={val}: {} bytes, valid", bytes.len())); }
                }
                Err(EncodeError::ValidationFailure { source }) => {
                    let msg = format!("{source:#}");
                    // recorded known finding: the graph API checks each argument on its own and does not track that two
                    // arguments must agree on the identity of a resource they share
                    if msg.contains("resource types are not the same") { late_resource += 1; if first_late.is_none() { first_late = Some(format!("graph API choice {choice:#07b} (bit0 consumer.shapes<-producer, bit1 app.render<-consumer, bit2 app.shapes<-producer): {}", msg.lines().next().unwrap_or(""))); } }
                    // recorded known finding: an instance whose types mention a resource is exported before (or without) the
                    // instance that defines the resource; export() accepts it, the validator does not
                    else if msg.contains("not valid to be used as export") { late_export += 1; if first_export.is_none() { first_export = Some(format!("graph API choice {choice:#07b} (bit3: `second-render`, an instance using resource `canvas`, is exported before `lib:types/shapes@1.0.0`): {}", msg.lines().next().unwrap_or(""))); } }
                    else { println!("C01-BOUNDED VIOLATION: encode failed with a post-hoc validation error for a composition built from accepted operations (choice {choice:#07b}, dependencies {}): {msg}", if define { "embedded" } else { "imported" }); std::process::exit(1); }
                }
                Err(_) => rejected += 1,
            }
        } }
    }
    // ---- through WAC documents
    let docs = [
        "package test:doc;\nlet p = new t:producer { };\nlet c = new t:consumer { ...p };\nlet a = new t:app { ...c, ...p };\nexport a.run;\n",
        "package test:doc;\nlet c = new t:consumer { ... };\nlet a = new t:app { render: c.render, ... };\nexport a...;\nexport c...;\n",
        "package test:doc;\nlet p = new t:producer { };\nlet c1 = new t:consumer { shapes: p.shapes };\nlet c2 = new t:consumer { shapes: p.shapes };\nexport c1.render;\nexport c2.render as second;\nexport p.shapes;\n",
        "package test:doc;\nlet p = new t:producer { };\nlet c1 = new t:consumer { shapes: p.shapes };\nexport p.shapes;\nexport c1.render;\n",
        // sibling interfaces: one `use`s a type named `error`, a later one defines its own, different `error`
        "package test:doc;\nlet m = new t:multi { ... };\nexport m.go;\n",
        "package test:doc;\nlet p = new t:producer { };\nlet m = new t:multi { shapes: p.shapes, ... };\nlet a = new t:app { ... };\nexport m.go;\nexport a.run;\n",
        "package test:doc;\nimport s: lib:types/shapes@1.0.0;\nlet c = new t:consumer { shapes: s };\nlet a = new t:app { ...c, shapes: s };\nexport a.run as go;\n",
        "package test:doc;\ninterface mine { use lib:types/shapes@1.0.0.{shape, point}; area2: func(s: shape, p: list<point>) -> result<u64>; }\nimport m: mine;\nlet a = new t:app { ... };\nexport a.run;\n",
    ];
    let mut resolve = wit_parser::Resolve::new();
    let pkg = resolve.push_str("lib.wit", WIT).unwrap();
    let witb = wit_component::encode(&resolve, pkg).unwrap();
    let v100 = semver::Version::parse("1.0.0").unwrap();
    for (di, src) in docs.iter().enumerate() {
        let doc = Document::parse(src).unwrap_or_else(|e| panic!("{e}\n{src}"));
        let mut packages: IndexMap<BorrowedPackageKey, Vec<u8>> = IndexMap::new();
        packages.insert(BorrowedPackageKey::from_name_and_version("t:producer", None), producer.clone());
        packages.insert(BorrowedPackageKey::from_name_and_version("t:consumer", None), consumer.clone());
        packages.insert(BorrowedPackageKey::from_name_and_version("t:app", None), app.clone());
        packages.insert(BorrowedPackageKey::from_name_and_version("t:multi", None), multi.clone());
        packages.insert(BorrowedPackageKey::from_name_and_version("lib:types", Some(&v100)), witb.clone());
        let res = match doc.resolve(packages) { Ok(r) => r, Err(e) => { println!("C01-VALID document #{di} does not resolve ({e}); generator problem\n{src}"); std::process::exit(2); } };
        for define in [true, false] { for val in [true, false] {
            match res.encode(EncodeOptions { define_components: define, validate: val, processor: None }) {
                Ok(bytes) => { outputs += 1; distinct.insert((100 + di as u32, define)); if let Err(e) = validate(&bytes) { if e.contains("resource types are not the same") { late_resource += 1; continue; } if e.contains("not valid to be used as export") { late_export += 1; continue; } println!("C01-BOUNDED VIOLATION: the encoding of document #{di} (dependencies {}, validation {}) is rejected by the validator: {e}\n{src}", if define { "embedded" } else { "imported" }, if val { "requested" } else { "not requested" }); std::process::exit(1); } }
                Err(e) => {
                    let msg = format!("{e:#?}");
                    if msg.contains("resource types are not the same") { late_resource += 1; if first_late.is_none() { first_late = Some(format!("document #{di}: {}", src.replace('\n', " "))); } }
                    else if msg.contains("not valid to be used as export") { late_export += 1; if first_export.is_none() { first_export = Some(format!("document #{di}: {}", src.replace('\n', " "))); } }
                    else { println!("C01-BOUNDED VIOLATION: document #{di} resolves but does not encode ({e}; dependencies {})\n{src}", if define { "embedded" } else { "imported" }); std::process::exit(1); }
                }
            }
        } }
    }
    // ---- single instantiations of worlds with unusual `use` shapes (every import implicit), all four option combinations
    let mut single_findings: Vec<String> = vec![];
    for (world, key) in [("expuse", "exported-interface-used-by-another-export"), ("sameres", "world-level-use-of-same-named-resources"), ("sameres-iface", "")] {
        let bytes = component(world);
        let mut g = CompositionGraph::new();
        let p = Package::from_bytes(&format!("t:{world}"), None, bytes, g.types_mut()).unwrap();
        let pid = g.register_package(p).unwrap();
        g.instantiate(pid);
        let mut bad: Vec<String> = vec![];
        for define in [true, false] { for val in [true, false] {
            let r = match g.encode(EncodeOptions { define_components: define, validate: val, processor: None }) { Ok(b) => validate(&b), Err(e) => Err(format!("{e:#}")) };
            outputs += 1;
            if let Err(e) = r { bad.push(format!("dependencies {} validate={val}: {}", if define { "embedded" } else { "imported" }, e.lines().next().unwrap_or(""))); } else { distinct.insert((200 + outputs as u32, define)); }
        } }
        if !bad.is_empty() {
            if key.is_empty() { println!("C01-BOUNDED VIOLATION: a single instantiation of world `{world}` (every import implicit) does not give a valid component: {:?}", bad); std::process::exit(1); }
            single_findings.push(format!("FINDING {key} a single instantiation of world `{world}` (every import implicit) does not give a valid component: {:?}", bad));
        }
    }
    // a component importing two core modules whose types share core function signatures (dependencies embedded only: writing
    // the component TYPE of such a package panics - the recorded C08 finding)
    {
        let bytes = wat::parse_str(r#"(component
  (import "m1" (core module (import "e" "f" (func)) (export "g" (func (param i32) (result i32)))))
  (import "m2" (core module (export "f" (func)) (export "g" (func (param i32) (result i32))) (export "h" (func (param i32 i32)))))
)"#).unwrap();
        let mut g = CompositionGraph::new();
        let p = Package::from_bytes("t:mods", None, bytes, g.types_mut()).unwrap();
        let pid = g.register_package(p).unwrap();
        g.instantiate(pid);
        for val in [true, false] {
            outputs += 1;
            let r = match g.encode(EncodeOptions { define_components: true, validate: val, processor: None }) { Ok(b) => validate(&b), Err(e) => Err(format!("{e:#}")) };
            if let Err(e) = r { println!("C01-BOUNDED VIOLATION: a single instantiation of a component importing two core modules (implicit imports, dependencies embedded, validate={val}) does not give a valid component: {e}"); std::process::exit(1); }
        }
    }
    for f in &single_findings { println!("{f}"); }
    if let Some(f) = &first_late { println!("FINDING late-validation-resource-identity {late_resource} encodings, e.g. {f}"); }
    if let Some(f) = &first_export { println!("FINDING late-validation-export-order {late_export} encodings, e.g. {f}"); }
    if samples.is_empty() { samples.push("(none)".to_string()); }
    println!("C01-VALID {} {{\"bounded\": true, \"evaluations\": {outputs}, \"distinct_nontrivial\": {}, \"rejected_with_a_documented_error\": {rejected}, \"late_validation_failures_of_the_recorded_classes\": [{late_resource}, {late_export}], \"samples\": {:?}}}", if late_resource + late_export > 0 || !single_findings.is_empty() { "findings" } else { "ok" }, distinct.len(), samples);
    std::process::exit(if late_resource + late_export > 0 || !single_findings.is_empty() { 3 } else { 0 });
}
