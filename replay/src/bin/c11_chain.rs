//! BOUNDED witness search for the "explicitly or through used interfaces" clause of C11 (World::implicit_imported_interfaces
//! is closure code that unit U9 takes as an uninterpreted map `implicit_s`).  A family of documents that target a world
//! defined in the same document; the world reaches interface `c` through a chain of `use`s of length 1..3, from an
//! imported or from an exported interface, or through a world-level `use`; the composition imports one interface of
//! the chain explicitly (conforming) or an unrelated interface (not conforming).  For each document the resolution-time
//! verdict must be: accepted exactly when the imported interface is on the chain; and for accepted documents the
//! stand-alone check (wac_types::validate_target on the encoded component) must agree.
//! Also: a type definition named like a required export does not satisfy it.
//! Exit 0 = agreement, 1 = a disagreeing document is printed.
use wac_parser::Document;
use wac_types::{validate_target, ItemKind, Package, Types};

fn main() {
    let (mut cases, mut accepted) = (0u64, 0u64);
    let mut samples = vec![];
    for depth in 1..=3usize { for via in ["import", "export", "use"] { for pick in 0..=depth {
        cases += 1;
        // chain i0 <- i1 <- .. <- i{depth}: i{k} uses a type of i{k+1}; the world reaches i0 directly
        let mut src = String::from("package test:comp targets test:comp/w;\n");
        src.push_str(&format!("interface i{depth} {{ type t{depth} = u32; }}\n"));
        for k in (0..depth).rev() { src.push_str(&format!("interface i{k} {{ use i{}.{{t{}}}; type t{k} = list<t{}>; f{k}: func(x: t{k}); }}\n", k + 1, k + 1, k + 1)); }
        src.push_str("interface other { type z = u8; }\n");
        match via {
            "import" => src.push_str("world w { import i0; }\n"),
            "export" => src.push_str("world w { export i0; }\n"),
            _ => src.push_str("world w { use i0.{t0}; import g: func(x: t0); }\n"),
        }
        // the composition imports interface i{pick+?}: pick == depth+1 never happens; an extra case imports `other`
        let target = if pick == 0 && via == "export" { "other".to_string() } else { format!("i{pick}") };
        let on_chain = target != "other" && !(via == "export" && pick == 0);
        src.push_str(&format!("import x as \"test:comp/{target}\": {target};\n"));
        let doc = match Document::parse(&src) { Ok(d) => d, Err(e) => { println!("C11-CHAIN generator problem: {e}\n{src}"); std::process::exit(2) } };
        let res = doc.resolve(Default::default());
        let ok = res.is_ok();
        if via == "export" {
            // nothing in these documents can export `test:comp/i0`, so none conforms; but the FIRST complaint tells whether the
            // import was accepted: an interface the exported interface uses is an import of the world (the export is then
            // what is missing), an unrelated one is not
            use wac_parser::resolution::Error;
            let good = match (&res, on_chain) { (Err(Error::MissingTargetExport { .. }), true) => true, (Err(Error::ImportNotInTarget { .. }), false) => true, _ => false };
            if !good { println!("C11-BOUNDED VIOLATION: the world exports an interface that reaches `test:comp/{target}` {}; resolution says: {}\n{src}", if on_chain { "through used interfaces (only the export is missing)" } else { "not at all" }, res.err().map(|e| e.to_string()).unwrap_or("accepted".into())); std::process::exit(1); }
            continue;
        }
        let want = on_chain;
        if ok != want {
            println!("C11-BOUNDED VIOLATION: the world reaches `test:comp/{target}` {} (chain of {depth} `use`s, via {via}); resolution {}: {}\n{src}", if want { "through used interfaces" } else { "not at all" }, if ok { "ACCEPTS the document" } else { "REJECTS the document" }, res.err().map(|e| e.to_string()).unwrap_or_default());
            std::process::exit(1);
        }
        if ok {
            accepted += 1;
            // the stand-alone check on the encoded component agrees
            let bytes = res.unwrap().encode(wac_graph::EncodeOptions::default()).unwrap_or_else(|e| { println!("C11-BOUNDED VIOLATION: an accepted document does not encode ({e:#})\n{src}"); std::process::exit(1) });
            let mut types = Types::default();
            let comp = Package::from_bytes("out", None, bytes, &mut types).unwrap();
            // the world, as the reference WIT toolchain encodes it
            let wit: String = src.lines().filter(|l| l.starts_with("interface") || l.starts_with("world")).collect::<Vec<_>>().join("\n");
            let mut resolve = wit_parser::Resolve::new();
            let pkg = resolve.push_str("w.wit", &format!("package test:comp;\n{wit}\n")).unwrap();
            let witb = wit_component::encode(&resolve, pkg).unwrap();
            let wp = Package::from_bytes("wit", None, witb, &mut types).unwrap();
            let world = match types[wp.ty()].exports.get("w") { Some(ItemKind::Type(wac_types::Type::World(id))) => { match types[*id].exports.values().next() { Some(ItemKind::Component(w)) => *w, _ => *id } } _ => { println!("C11-CHAIN cannot find world w in the WIT encoding"); std::process::exit(2) } };
            if let Err(e) = validate_target(&types, world, comp.ty()) { println!("C11-BOUNDED VIOLATION: resolution accepts the document, the stand-alone check on the encoded component rejects it ({e:#})\n{src}"); std::process::exit(1); }
            if samples.len() < 2 { samples.push(format!("depth {depth} via {via}: import of i{pick} accepted")); }
        }
    } } }
    // (ii) an import outside the world is still rejected
    let src = "package test:comp targets test:comp/w;\ninterface i1 { type t1 = u32; }\ninterface i0 { use i1.{t1}; f: func(x: t1); }\ninterface other { type z = u8; }\nworld w { import i0; }\nimport x as \"test:comp/other\": other;\n";
    cases += 1;
    if Document::parse(src).unwrap().resolve(Default::default()).is_ok() { println!("C11-BOUNDED VIOLATION: an import of an interface the world does not reach is accepted\n{src}"); std::process::exit(1); }
    // (iii) a TYPE definition named like a required export is not that export (a function type is not a function, an
    //       interface type is not an instance, a world type is not a component)
    for (what, src) in [
        ("function type for a function export", "package test:comp targets test:comp/w;\nworld w { export hello: func(); }\ntype hello = func();\n"),
        ("interface type for an instance export", "package test:comp targets test:comp/w;\nworld w { export api: interface { f: func(); }; }\ninterface api { f: func(); }\n"),
        ("interface type for an exported interface", "package test:comp targets test:comp/w;\ninterface i { f: func(); }\nworld w { export i; }\n"),
    ] {
        cases += 1;
        let doc = match Document::parse(src) { Ok(d) => d, Err(e) => { println!("C11-CHAIN generator problem: {e}\n{src}"); std::process::exit(2) } };
        if doc.resolve(Default::default()).is_ok() { println!("C11-BOUNDED VIOLATION: {what}: a document whose only candidate for the world's export is a type definition is accepted\n{src}"); std::process::exit(1); }
    }
    println!("C11-CHAIN ok {{\"bounded\": true, \"evaluations\": {cases}, \"distinct_nontrivial\": {accepted}, \"samples\": {:?}}}", samples);
}
