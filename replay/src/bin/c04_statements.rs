//! BOUNDED stand-in for the statement-level clauses of C04 (export_statement / export_item / import_statement /
//! let_statement / alias_export: `continue` in for-loops, closures, `.keys().cloned().collect()` - outside Verus's dialect;
//! the name-inference core they call, infer_export_name, is proved in unit U8): "`let` only names; `import` and `export`
//! (including `as` and spread) use the documented extern names; an ill-formed document (undefined or duplicate name,
//! non-instance spread, ineffective spread, conflicting export) is rejected with the corresponding diagnostic".
//! Every sequence of up to MAX export statements (from 12 forms) after a fixed prelude is resolved by the REAL parser +
//! resolver and the composition's exports (names and what each is bound to) are compared with a reference evaluator
//! written from LANGUAGE.md ("Export Statements").
//! Exit 0 = agreement, 1 = a disagreeing document is printed.   usage: c04_statements [max_statements]
use indexmap::IndexMap;
use std::collections::BTreeMap;
use wac_parser::{resolution::Error, Document};
use wac_types::BorrowedPackageKey;

fn lib(exports: &[(&str, bool)]) -> Vec<u8> {
    let mut s = String::from(r#"(component
  (core module $m (func (export "f")))
  (core instance $i (instantiate $m))
  (func $f (canon lift (core func $i "f")))
  (instance $inst (export "setup" (func $f)))
"#);
    for (n, is_inst) in exports { if *is_inst { s.push_str(&format!("  (export \"{n}\" (instance $inst))\n")); } else { s.push_str(&format!("  (export \"{n}\" (func $f))\n")); } }
    s.push(')');
    wat::parse_str(&s).unwrap()
}

const P_EXPORTS: [(&str, bool); 3] = [("run", false), ("a:b/setup", true), ("other", false)];
const Q_EXPORTS: [(&str, bool); 2] = [("run", false), ("go", false)];
const PRELUDE: &str = "package test:doc;\nimport f: func();\nimport g as \"renamed\": func();\nlet i = new p:lib {};\nlet j = new q:lib {};\nlet k = i.other;\n";

/// (statement text, what it does)
#[derive(Clone, Copy)]
enum Form { Named(&'static str, &'static str), Spread(&'static str), Fail(&'static str) }
fn forms() -> Vec<(&'static str, Form)> {
    vec![
        ("export i.run;", Form::Named("run", "i.run")),
        ("export j.run;", Form::Named("run", "j.run")),
        ("export i.run as other-name;", Form::Named("other-name", "i.run")),
        ("export j.go as \"string-name\";", Form::Named("string-name", "j.go")),
        ("export i...;", Form::Spread("i")),
        ("export j...;", Form::Spread("j")),
        ("export i;", Form::Fail("ExportRequiresAs")),
        ("export f;", Form::Named("f", "import f")),
        ("export g;", Form::Named("renamed", "import renamed")),
        ("export i.setup;", Form::Named("a:b/setup", "i.a:b/setup")),
        ("export k;", Form::Named("other", "i.other")),
        ("export z;", Form::Fail("UndefinedName")),
        ("export f...;", Form::Fail("NotAnInstance")),
    ]
}

fn reference(seq: &[usize], fs: &[(&str, Form)]) -> Result<BTreeMap<String, String>, &'static str> {
    let mut x: BTreeMap<String, String> = BTreeMap::new();
    for s in seq {
        match fs[*s].1 {
            Form::Fail(k) => return Err(k),
            Form::Named(n, src) => { if x.contains_key(n) { return Err("DuplicateExternName"); } x.insert(n.to_string(), src.to_string()); }
            Form::Spread(inst) => {
                let ex: &[(&str, bool)] = if inst == "i" { &P_EXPORTS } else { &Q_EXPORTS };
                let mut any = false;
                for (n, _) in ex { if !x.contains_key(*n) { x.insert(n.to_string(), format!("{inst}.{n}")); any = true; } }
                if !any { return Err("SpreadExportNoEffect"); }
            }
        }
    }
    Ok(x)
}

fn main() {
    let maxs: usize = std::env::args().nth(1).and_then(|s| s.parse().ok()).unwrap_or(3);
    let fs = forms();
    let mut seqs: Vec<Vec<usize>> = vec![];
    let mut frontier: Vec<Vec<usize>> = vec![vec![]];
    for _ in 0..maxs { let mut next = vec![]; for l in &frontier { for k in 0..fs.len() { let mut m = l.clone(); m.push(k); next.push(m); } } seqs.extend(next.iter().cloned()); frontier = next; }
    let (p, q) = (lib(&P_EXPORTS), lib(&Q_EXPORTS));
    let (mut docs, mut ok) = (0u64, 0u64);
    let mut errs: BTreeMap<&str, u64> = BTreeMap::new();
    for seq in &seqs {
        // statements after the first failing one do not matter: skip sequences that continue past a certain failure
        if let Some(pos) = seq.iter().position(|s| matches!(fs[*s].1, Form::Fail(_))) { if pos + 1 != seq.len() { continue; } }
        let src = format!("{PRELUDE}{}\n", seq.iter().map(|s| fs[*s].0).collect::<Vec<_>>().join("\n"));
        let doc = match Document::parse(&src) { Ok(d) => d, Err(e) => { println!("C04-STATEMENTS generator produced an unparsable document: {e}\n{src}"); std::process::exit(2); } };
        let mut packages: IndexMap<BorrowedPackageKey, Vec<u8>> = IndexMap::new();
        packages.insert(BorrowedPackageKey::from_name_and_version("p:lib", None), p.clone());
        packages.insert(BorrowedPackageKey::from_name_and_version("q:lib", None), q.clone());
        docs += 1;
        let want = reference(seq, &fs);
        let got: Result<BTreeMap<String, String>, String> = match doc.resolve(packages) {
            Ok(res) => {
                let g = res.graph();
                let mut m = BTreeMap::new();
                for name in ["run", "other-name", "string-name", "a:b/setup", "other", "go", "f", "renamed", "i", "k", "z", "g", "setup"] {
                    if let Some(n) = g.get_export(name) {
                        let src = match g.get_alias_source(n) {
                            Some((owner, export)) => format!("{}.{}", g[owner].name().unwrap_or("?"), export),
                            None => match g.get_import_name(n) { Some(i) => format!("import {i}"), None => "?".to_string() },
                        };
                        m.insert(name.to_string(), src);
                    }
                }
                Ok(m)
            }
            Err(Error::ExportRequiresAs { .. }) => Err("ExportRequiresAs".into()),
            Err(Error::UndefinedName { .. }) => Err("UndefinedName".into()),
            Err(Error::NotAnInstance { .. }) => Err("NotAnInstance".into()),
            Err(Error::DuplicateExternName { .. }) => Err("DuplicateExternName".into()),
            Err(Error::SpreadExportNoEffect { .. }) => Err("SpreadExportNoEffect".into()),
            Err(e) => Err(format!("other: {e}")),
        };
        let same = match (&want, &got) { (Ok(a), Ok(b)) => a == b, (Err(a), Err(b)) => a == b, _ => false };
        if !same {
            println!("C04-BOUNDED VIOLATION: exports {:?}, LANGUAGE.md gives {:?}; document:\n{src}", got, want);
            std::process::exit(1);
        }
        match want { Ok(_) => ok += 1, Err(k) => *errs.entry(k).or_insert(0) += 1 }
    }
    println!("C04-STATEMENTS ok {{\"bounded\": true, \"max_export_statements\": {maxs}, \"documents\": {docs}, \"well_formed\": {ok}, \"ill_formed\": {:?}}}", errs);
}
