//! BOUNDED stand-in for PackageVisitor::expr (assumed in unit U10 because Verus rejects `continue` in for-loops):
//! enumerates expressions up to a nesting depth (new / named arguments / parentheses / inferred, spread and fill
//! arguments), places each in `let` and `export` statements after other package-referencing statements, runs the REAL
//! parser + wac_resolver::packages() and compares the discovered set with the package names that literally follow a
//! `new` keyword (and the other statements' references).  A `new` of the document's own package must be rejected.
//! Exit 0 = agreement on everything enumerated, 1 = a disagreeing document is printed.  usage: c17_expr [depth]
use std::collections::BTreeSet;
use wac_parser::Document;

const PKGS: [&str; 3] = ["a:b", "c:d", "e:f@1.2.3"];
const OWN: &str = "test:doc";

fn exprs(depth: usize) -> Vec<String> {
    let mut out = vec!["v".to_string()];
    if depth == 0 { return out; }
    let sub = exprs(depth - 1);
    let subs: Vec<&String> = sub.iter().take(6).collect();
    for (pi, p) in PKGS.iter().chain([OWN].iter()).enumerate() {
        out.push(format!("new {p} {{ }}"));
        out.push(format!("new {p} {{ ... }}"));
        out.push(format!("new {p} {{ v, ...w, ... }}"));
        for (k, s) in subs.iter().enumerate() {
            if (k + pi) % 2 == 0 { out.push(format!("new {p} {{ x: {s} }}")); }
            else { out.push(format!("new {p} {{ w, x: {s}, \"y\": ({s}), ...v }}")); }
            // named arguments AFTER a spread / fill / inferred argument (every position of the argument list is visited)
            if k < 3 {
                out.push(format!("new {p} {{ ...w, x: {s} }}"));
                out.push(format!("new {p} {{ ..., \"y\": {s} }}"));
                out.push(format!("new {p} {{ v, ...w, ..., x: ({s}), z }}"));
            }
        }
    }
    for (pi, p) in PKGS.iter().enumerate() {
        let only = ["g:h", "m:n@2.0.0", "o:p"][pi];
        out.push(format!("new {p} {{ ...w, x: new {only} {{ }} }}"));
        out.push(format!("new {p} {{ ..., x: new {only} {{ }} }}"));
        out.push(format!("new {p} {{ v, x: new {only} {{ }} }}"));
        out.push(format!("new {p} {{ v, ...w, ..., \"y\": (new {only} {{ ...w, z: new {OWN} {{ }} }}) }}"));
    }
    for s in subs.iter() { out.push(format!("({s})")); }
    out
}

fn expected(src: &str) -> (BTreeSet<String>, bool) {
    // package names that literally follow `new`, `targets`, `import .. :`, `use`, `include` in the generated text
    let mut set = BTreeSet::new();
    let mut own = false;
    let toks: Vec<&str> = src.split(|c: char| c.is_whitespace() || "{}(),;".contains(c)).filter(|t| !t.is_empty()).collect();
    for w in toks.windows(2) {
        if w[0] == "new" {
            let name = w[1].split('@').next().unwrap().to_string();
            if name == OWN { own = true; } else { set.insert(w[1].to_string()); }
        }
    }
    (set, own)
}

fn main() {
    let depth: usize = std::env::args().nth(1).and_then(|s| s.parse().ok()).unwrap_or(3);
    let es = exprs(depth);
    let mut docs = 0u64;
    let mut with_refs = 0u64;
    let mut samples = vec![];
    for (i, e) in es.iter().enumerate() {
        let e2 = &es[(i * 7 + 3) % es.len()];
        // other statement kinds around the expressions, each with its own package reference
        let src = format!(
            "package {OWN} targets t:w/world;\nimport i: q:r/iface;\nlet a = {e};\ninterface k {{ use u:s/types.{{t}}; }}\nexport {e2} as out;\n"
        );
        let doc = match Document::parse(&src) {
            Ok(d) => d,
            Err(err) => { println!("C17-BOUNDED generator produced an unparsable document: {err}\n{src}"); std::process::exit(2); }
        };
        let (mut exp, own) = expected(&src);
        for fixed in ["t:w", "q:r", "u:s"] { exp.insert(fixed.to_string()); }
        docs += 1;
        if !exp.is_empty() { with_refs += 1; }
        match wac_resolver::packages(&doc) {
            Ok(keys) => {
                if own { println!("C17-BOUNDED VIOLATION: a document instantiating its own package was accepted at discovery:\n{src}"); std::process::exit(1); }
                let got: BTreeSet<String> = keys.keys().map(|k| match k.version { Some(v) => format!("{}@{}", k.name, v), None => k.name.to_string() }).collect();
                if got != exp {
                    println!("C17-BOUNDED VIOLATION: discovered {got:?}, expected {exp:?} for document:\n{src}");
                    std::process::exit(1);
                }
            }
            Err(err) => {
                if !own { println!("C17-BOUNDED VIOLATION: discovery failed ({err}) for a document that does not instantiate itself:\n{src}"); std::process::exit(1); }
            }
        }
        if samples.len() < 2 && i % 40 == 17 { samples.push(src.replace('\n', " ")); }
    }
    println!("C17-BOUNDED ok {{\"bounded\": true, \"expression_depth\": {depth}, \"documents\": {docs}, \"documents_with_references\": {with_refs}, \"samples\": {samples:?}}}");
}
