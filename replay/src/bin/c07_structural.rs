//! BOUNDED stand-in for the six structural checker functions Verus cannot specify (they use `.enumerate()`):
//! SubtypeChecker::{func, tuple, record, variant, enum_type, flags}.  Their contracts are ASSUMED in unit U3; this
//! program compares the real checker (through the public `is_subtype`) with an executable mirror of those assumed
//! contracts on every ordered pair of a small-scope universe (depth <= 2), in two independently built collections.
//! Exit 0 = agreement everywhere, 1 = a disagreeing pair is printed.  usage: c07_structural [seed]
use indexmap::{IndexMap, IndexSet};
use std::collections::HashSet;
use wac_types::{
    DefinedType, DefinedTypeId, Enum, Flags, FuncType, FuncTypeId, ItemKind, PrimitiveType, Record, SubtypeChecker, Types, ValueType, Variant,
};

#[derive(Clone, Debug, PartialEq)]
enum V { P(u8), D(usize) }                     // primitive index | universe index of a defined type
#[derive(Clone, Debug, PartialEq)]
enum D {
    Tuple(Vec<V>), List(V), Fixed(V, u32), Opt(V), Res(Option<V>, Option<V>), Stream(Option<V>), Future(Option<V>),
    Variant(Vec<(&'static str, Option<V>)>), Record(Vec<(&'static str, V)>), Flags(Vec<&'static str>), Enum(Vec<&'static str>),
    Alias(V),
}
#[derive(Clone, Debug, PartialEq)]
struct F { params: Vec<(&'static str, V)>, result: Option<V>, is_async: bool }

const PRIMS: [PrimitiveType; 3] = [PrimitiveType::U8, PrimitiveType::String, PrimitiveType::Bool];

fn universe() -> (Vec<D>, Vec<F>) {
    let p = |i: u8| V::P(i);
    let mut ds: Vec<D> = vec![];
    // level 1: over primitives
    let lvl0: Vec<V> = vec![p(0), p(1), p(2)];
    let mut push_level = |ds: &mut Vec<D>, vs: &[V]| {
        for a in vs {
            ds.push(D::List(a.clone()));
            ds.push(D::Opt(a.clone()));
            ds.push(D::Fixed(a.clone(), 2));
            ds.push(D::Fixed(a.clone(), 3));
            ds.push(D::Stream(Some(a.clone())));
            ds.push(D::Future(Some(a.clone())));
            ds.push(D::Alias(a.clone()));
            ds.push(D::Res(Some(a.clone()), None));
            ds.push(D::Res(None, Some(a.clone())));
            ds.push(D::Tuple(vec![a.clone()]));
            for b in vs.iter().take(2) {
                ds.push(D::Tuple(vec![a.clone(), b.clone()]));
                ds.push(D::Res(Some(a.clone()), Some(b.clone())));
                ds.push(D::Record(vec![("x", a.clone()), ("y", b.clone())]));
                ds.push(D::Record(vec![("y", b.clone()), ("x", a.clone())]));
                ds.push(D::Variant(vec![("x", Some(a.clone())), ("y", Some(b.clone()))]));
            }
            ds.push(D::Record(vec![("x", a.clone())]));
            ds.push(D::Record(vec![("z", a.clone())]));
            ds.push(D::Variant(vec![("x", Some(a.clone())), ("y", None)]));
            ds.push(D::Variant(vec![("x", None), ("y", Some(a.clone()))]));
            ds.push(D::Variant(vec![("x", Some(a.clone()))]));
        }
    };
    push_level(&mut ds, &lvl0);
    ds.push(D::Res(None, None));
    ds.push(D::Stream(None));
    ds.push(D::Future(None));
    ds.push(D::Tuple(vec![]));
    ds.push(D::Variant(vec![("x", None), ("y", None)]));
    ds.push(D::Variant(vec![("y", None), ("x", None)]));
    for names in [vec!["a"], vec!["a", "b"], vec!["b", "a"], vec!["a", "b", "c"], vec!["a", "c"]] {
        ds.push(D::Flags(names.clone()));
        ds.push(D::Enum(names));
    }
    // level 2: a few constructors over level-1 defined types (depth 2), incl. alias chains
    let n1 = ds.len();
    let picks: Vec<V> = (0..n1).step_by(7).map(V::D).collect();
    let mut l2 = vec![];
    for a in &picks {
        l2.push(D::List(a.clone()));
        l2.push(D::Alias(a.clone()));
        l2.push(D::Opt(a.clone()));
        l2.push(D::Tuple(vec![p(0), a.clone()]));
        l2.push(D::Record(vec![("x", a.clone())]));
        l2.push(D::Variant(vec![("x", Some(a.clone())), ("y", None)]));
    }
    ds.extend(l2);
    // functions
    let mut fs = vec![];
    let vals: Vec<V> = vec![p(0), p(1), V::D(0), V::D(6)];
    for is_async in [false, true] {
        for res in [None, Some(p(0)), Some(p(1)), Some(V::D(6))] {
            fs.push(F { params: vec![], result: res.clone(), is_async });
            for a in &vals {
                fs.push(F { params: vec![("a", a.clone())], result: res.clone(), is_async });
                fs.push(F { params: vec![("b", a.clone())], result: res.clone(), is_async });
                for b in vals.iter().take(2) {
                    fs.push(F { params: vec![("a", a.clone()), ("b", b.clone())], result: res.clone(), is_async });
                    fs.push(F { params: vec![("b", b.clone()), ("a", a.clone())], result: res.clone(), is_async });
                }
            }
        }
    }
    (ds, fs)
}

struct Built { types: Types, dids: Vec<DefinedTypeId>, fids: Vec<FuncTypeId> }

fn build(ds: &[D], fs: &[F]) -> Built {
    let mut types = Types::default();
    let mut dids: Vec<DefinedTypeId> = vec![];
    let v = |x: &V, dids: &Vec<DefinedTypeId>| match x { V::P(i) => ValueType::Primitive(PRIMS[*i as usize]), V::D(i) => ValueType::Defined(dids[*i]) };
    let ov = |x: &Option<V>, dids: &Vec<DefinedTypeId>| x.as_ref().map(|x| v(x, dids));
    for d in ds {
        let dt = match d {
            D::Tuple(xs) => DefinedType::Tuple(xs.iter().map(|x| v(x, &dids)).collect()),
            D::List(x) => DefinedType::List(v(x, &dids)),
            D::Fixed(x, n) => DefinedType::FixedSizeList(v(x, &dids), *n),
            D::Opt(x) => DefinedType::Option(v(x, &dids)),
            D::Res(a, b) => DefinedType::Result { ok: ov(a, &dids), err: ov(b, &dids) },
            D::Stream(x) => DefinedType::Stream(ov(x, &dids)),
            D::Future(x) => DefinedType::Future(ov(x, &dids)),
            D::Variant(cs) => DefinedType::Variant(Variant { cases: cs.iter().map(|(n, x)| (n.to_string(), ov(x, &dids))).collect::<IndexMap<_, _>>() }),
            D::Record(fs) => DefinedType::Record(Record { fields: fs.iter().map(|(n, x)| (n.to_string(), v(x, &dids))).collect::<IndexMap<_, _>>() }),
            D::Flags(ns) => DefinedType::Flags(Flags(ns.iter().map(|n| n.to_string()).collect::<IndexSet<_>>())),
            D::Enum(ns) => DefinedType::Enum(Enum(ns.iter().map(|n| n.to_string()).collect::<IndexSet<_>>())),
            D::Alias(x) => DefinedType::Alias(v(x, &dids)),
        };
        dids.push(types.add_defined_type(dt));
    }
    let mut fids = vec![];
    for f in fs {
        fids.push(types.add_func_type(FuncType {
            params: f.params.iter().map(|(n, x)| (n.to_string(), v(x, &dids))).collect(),
            result: f.result.as_ref().map(|x| v(x, &dids)),
            is_async: f.is_async,
        }));
    }
    Built { types, dids, fids }
}

// ---- executable mirror of the assumed contracts (structural equality through aliases)
fn resolve<'a>(ds: &'a [D], x: &'a V) -> &'a V {
    let mut cur = x;
    loop {
        match cur { V::D(i) => match &ds[*i] { D::Alias(y) => cur = y, _ => return cur }, _ => return cur }
    }
}
fn val_eq(ds: &[D], a: &V, b: &V) -> bool {
    match (resolve(ds, a), resolve(ds, b)) {
        (V::P(x), V::P(y)) => x == y,
        (V::D(x), V::D(y)) => def_eq(ds, &ds[*x], &ds[*y]),
        _ => false,
    }
}
fn opt_eq(ds: &[D], a: &Option<V>, b: &Option<V>) -> bool {
    match (a, b) { (Some(x), Some(y)) => val_eq(ds, x, y), (None, None) => true, _ => false }
}
fn def_eq(ds: &[D], a: &D, b: &D) -> bool {
    match (a, b) {
        (D::Tuple(x), D::Tuple(y)) => x.len() == y.len() && x.iter().zip(y).all(|(p, q)| val_eq(ds, p, q)),
        (D::List(x), D::List(y)) | (D::Opt(x), D::Opt(y)) => val_eq(ds, x, y),
        (D::Fixed(x, n), D::Fixed(y, m)) => n == m && val_eq(ds, x, y),
        (D::Res(a1, b1), D::Res(a2, b2)) => opt_eq(ds, a1, a2) && opt_eq(ds, b1, b2),
        (D::Stream(x), D::Stream(y)) | (D::Future(x), D::Future(y)) => opt_eq(ds, x, y),
        (D::Variant(x), D::Variant(y)) => x.len() == y.len() && x.iter().zip(y).all(|((n1, p), (n2, q))| n1 == n2 && opt_eq(ds, p, q)),
        (D::Record(x), D::Record(y)) => x.len() == y.len() && x.iter().zip(y).all(|((n1, p), (n2, q))| n1 == n2 && val_eq(ds, p, q)),
        (D::Flags(x), D::Flags(y)) | (D::Enum(x), D::Enum(y)) => x == y,
        _ => false,
    }
}
fn func_eq(ds: &[D], a: &F, b: &F) -> bool {
    a.is_async == b.is_async && a.params.len() == b.params.len()
        && a.params.iter().zip(&b.params).all(|((n1, p), (n2, q))| n1 == n2 && val_eq(ds, p, q))
        && opt_eq(ds, &a.result, &b.result)
}

fn main() {
    let (ds, fs) = universe();
    let a = build(&ds, &fs);
    let b = build(&ds, &fs); // an independently built copy: "reflexive across independently decoded copies"
    let mut pairs = 0u64;
    let mut nontrivial = 0u64;
    let mut samples = vec![];
    for (ta, tb, label) in [(&a, &a, "same collection"), (&a, &b, "two copies")] {
        let mut cache = HashSet::new(); // one memo shared by all checks of this pass
        for i in 0..ds.len() {
            for j in 0..ds.len() {
                let expect = (i == j && std::ptr::eq(ta, tb)) || val_eq(&ds, &V::D(i), &V::D(j));
                let got = SubtypeChecker::new(&mut cache)
                    .is_subtype(ItemKind::Value(ValueType::Defined(ta.dids[i])), &ta.types, ItemKind::Value(ValueType::Defined(tb.dids[j])), &tb.types)
                    .is_ok();
                pairs += 1;
                if expect { nontrivial += 1; }
                if samples.len() < 3 && i != j && expect { samples.push(format!("{:?} <= {:?}", ds[i], ds[j])); }
                if got != expect {
                    println!("C07-BOUNDED VIOLATION ({label}) defined types {:?} vs {:?}: checker says {got}, structural relation says {expect}", ds[i], ds[j]);
                    std::process::exit(1);
                }
            }
        }
        for i in 0..fs.len() {
            for j in 0..fs.len() {
                let expect = func_eq(&ds, &fs[i], &fs[j]);
                let got = SubtypeChecker::new(&mut cache).is_subtype(ItemKind::Func(ta.fids[i]), &ta.types, ItemKind::Func(tb.fids[j]), &tb.types).is_ok();
                pairs += 1;
                if expect { nontrivial += 1; }
                if got != expect {
                    println!("C07-BOUNDED VIOLATION ({label}) functions {:?} vs {:?}: checker says {got}, structural relation says {expect}", fs[i], fs[j]);
                    std::process::exit(1);
                }
            }
        }
    }
    println!("C07-BOUNDED ok {{\"bounded\": true, \"defined_types\": {}, \"func_types\": {}, \"ordered_pairs_checked\": {pairs}, \"accepted_pairs\": {nontrivial}, \"depth\": 2, \"samples\": {:?}}}", ds.len(), fs.len(), samples);
}
