//! BOUNDED cross-check of package discovery over every syntactic position OUTSIDE expressions (C17): unit U10 proves
//! PackageVisitor::{visit, import_statement, type_statement, interface_item, world_item, world_item_path} function by
//! function; a refactor that merges or renames those functions leaves the stored proof without its anchors (undecided),
//! so this program searches for a concrete missed reference on the REAL parser + wac_resolver::packages().
//! Documents are assembled from item lists in EVERY order (all permutations of up to 4 items, each item being a
//! package-referencing or a plain item) for: named interface bodies, `import x: interface { .. }` bodies, world bodies
//! (use / include / import path / export path / import inline interface / export inline interface / plain items) and
//! statement lists.  Every reference carries its own distinct package name, so the expected set is known by
//! construction.  Exit 0 = discovered == expected everywhere, 1 = a disagreeing document is printed.
use std::collections::BTreeSet;
use wac_parser::Document;

fn permutations<T: Clone>(items: &[T]) -> Vec<Vec<T>> {
    if items.len() <= 1 { return vec![items.to_vec()]; }
    let mut out = vec![];
    for i in 0..items.len() {
        let mut rest = items.to_vec();
        let x = rest.remove(i);
        for mut p in permutations(&rest) { p.insert(0, x.clone()); out.push(p); }
    }
    out
}
/// all non-empty sub-lists (as index masks) of size <= k, each in all orders
fn ordered_subsets<T: Clone>(items: &[T], k: usize) -> Vec<Vec<T>> {
    let mut out = vec![];
    for mask in 1u32..(1 << items.len()) {
        if mask.count_ones() as usize > k { continue; }
        let sub: Vec<T> = (0..items.len()).filter(|i| mask & (1 << i) != 0).map(|i| items[i].clone()).collect();
        out.extend(permutations(&sub));
    }
    out
}

struct Tally { docs: u64, refs: u64 }

fn check(t: &mut Tally, src: &str, expected: &BTreeSet<String>) {
    let doc = match Document::parse(src) {
        Ok(d) => d,
        Err(e) => { println!("C17-POSITIONS generator produced an unparsable document: {e}\n{src}"); std::process::exit(2); }
    };
    t.docs += 1; t.refs += expected.len() as u64;
    match wac_resolver::packages(&doc) {
        Ok(keys) => {
            let got: BTreeSet<String> = keys.keys().map(|k| match k.version { Some(v) => format!("{}@{}", k.name, v), None => k.name.to_string() }).collect();
            if &got != expected {
                println!("C17-BOUNDED VIOLATION: discovered {got:?}, expected {expected:?} for document:\n{src}");
                std::process::exit(1);
            }
        }
        Err(e) => { println!("C17-BOUNDED VIOLATION: discovery failed ({e}) for document:\n{src}"); std::process::exit(1); }
    }
}

fn main() {
    let k: usize = std::env::args().nth(1).and_then(|s| s.parse().ok()).unwrap_or(4);
    let mut t = Tally { docs: 0, refs: 0 };
    // (text, referenced package) - every reference has its own package name; the name n is substituted per use
    let iface_items: Vec<(&str, Option<&str>)> = vec![
        ("use p1:a/types.{t1};", Some("p1:a")),
        ("use p2:b/types@1.2.3.{t2 as t3};", Some("p2:b@1.2.3")),
        ("type x = u32;", None),
        ("f: func() -> string;", None),
        ("record r { a: u8 }", None),
    ];
    for body in ordered_subsets(&iface_items, k) {
        let text: String = body.iter().map(|(s, _)| *s).collect::<Vec<_>>().join(" ");
        let exp: BTreeSet<String> = body.iter().filter_map(|(_, p)| p.map(|s| s.to_string())).collect();
        // named interface, import-statement inline interface, world import / export inline interface
        check(&mut t, &format!("package test:doc;\ninterface k {{ {text} }}\n"), &exp);
        check(&mut t, &format!("package test:doc;\nimport x: interface {{ {text} }};\n"), &exp);
        check(&mut t, &format!("package test:doc;\nworld w {{ import i: interface {{ {text} }}; }}\n"), &exp);
        check(&mut t, &format!("package test:doc;\nworld w {{ export e: interface {{ {text} }}; }}\n"), &exp);
    }
    let world_items: Vec<(&str, Option<&str>)> = vec![
        ("use q1:a/types.{t1};", Some("q1:a")),
        ("include q2:b/w2@0.3.0;", Some("q2:b@0.3.0")),
        ("import q3:c/iface;", Some("q3:c")),
        ("export q4:d/iface@2.0.0;", Some("q4:d@2.0.0")),
        ("import n: interface { use q5:e/types.{t5}; };", Some("q5:e")),
        ("export f: func();", None),
        ("type y = u8;", None),
        ("import local-iface;", None),
        ("include local-world;", None),
    ];
    for body in ordered_subsets(&world_items, k.min(3)) {
        let text: String = body.iter().map(|(s, _)| *s).collect::<Vec<_>>().join(" ");
        let exp: BTreeSet<String> = body.iter().filter_map(|(_, p)| p.map(|s| s.to_string())).collect();
        check(&mut t, &format!("package test:doc;\nworld w {{ {text} }}\n"), &exp);
    }
    let stmts: Vec<(&str, Option<&str>)> = vec![
        ("import a: r1:a/iface;", Some("r1:a")),
        ("import b: func();", None),
        ("interface k2 { use r2:b/types.{t}; }", Some("r2:b")),
        ("world w3 { include r3:c/w; }", Some("r3:c")),
        ("type z = u32;", None),
        ("let v = new r4:d { ... };", Some("r4:d")),
        ("export new r5:e@1.0.0 { } as out;", Some("r5:e@1.0.0")),
        ("let u = b;", None),
    ];
    for (ti, targets) in ["", " targets r0:t/w"].iter().enumerate() {
        for body in ordered_subsets(&stmts, k.min(3)) {
            let text: String = body.iter().map(|(s, _)| *s).collect::<Vec<_>>().join("\n");
            let mut exp: BTreeSet<String> = body.iter().filter_map(|(_, p)| p.map(|s| s.to_string())).collect();
            if ti == 1 { exp.insert("r0:t".to_string()); }
            check(&mut t, &format!("package test:doc{targets};\n{text}\n"), &exp);
        }
    }
    println!("C17-POSITIONS ok {{\"bounded\": true, \"max_items_per_body\": {k}, \"documents\": {}, \"references_checked\": {}}}", t.docs, t.refs);
}
