//! BOUNDED check of the resolver side of C17 ("supplying exactly the discovered packages gives the same resolution result
//! as supplying any superset"; unit U10 proves what PackageVisitor reports, the resolver's resolve_package /
//! resolve_package_path are `HashMap` entry / closure code in a 2700-line file outside the dialect).
//! Documents are assembled from statements that reference packages of a small library from every kind of position
//! (targets, import paths, `use` inside interfaces / worlds / inline interfaces, includes, world import/export paths,
//! `new` in let / export / nested arguments), with and without versions, plus references to packages that do not exist.
//! Each document is resolved twice by the REAL resolver: with exactly the packages wac_resolver::packages() reports
//! (those that exist in the library) and with the whole library.  The two results must be the same: both Ok with
//! byte-identical encodings, or both the same error.
//! Exit 0 = same result everywhere, 1 = a disagreeing document is printed.   usage: c17_resolve [max_statements]
use indexmap::IndexMap;
use wac_parser::Document;
use wac_types::BorrowedPackageKey;

fn wit_pkg(text: &str) -> Vec<u8> {
    let mut resolve = wit_parser::Resolve::new();
    let pkg = resolve.push_str("p.wit", text).unwrap();
    wit_component::encode(&resolve, pkg).unwrap()
}
fn comp(imports: &[&str]) -> Vec<u8> {
    let mut s = String::from("(component\n");
    for n in imports { s.push_str(&format!("  (import \"{n}\" (func))\n")); }
    s.push_str(r#"  (core module $m (func (export "run")))
  (core instance $i (instantiate $m))
  (func $run (canon lift (core func $i "run")))
  (export "run" (func $run))
)"#);
    wat::parse_str(&s).unwrap()
}

fn main() {
    let maxs: usize = std::env::args().nth(1).and_then(|s| s.parse().ok()).unwrap_or(3);
    let v100 = semver::Version::parse("1.0.0").unwrap();
    let v200 = semver::Version::parse("2.0.0").unwrap();
    // the library: (name, version, bytes)
    let lib: Vec<(&str, Option<&semver::Version>, Vec<u8>)> = vec![
        ("p:lib", None, comp(&["x"])),
        ("q:lib", None, comp(&[])),
        ("q:lib", Some(&v100), comp(&["y"])),
        ("w:t", None, wit_pkg("package w:t;\ninterface types { type t = u32; record r { a: u8 } }\ninterface api { use types.{t}; f: func() -> t; }\nworld w { import api; export run: func(); }\n")),
        ("w:t", Some(&v100), wit_pkg("package w:t@1.0.0;\ninterface types { type t = string; }\nworld w { import types; }\n")),
        ("w:t", Some(&v200), wit_pkg("package w:t@2.0.0;\ninterface types { type t = u8; }\n")),
        // published releases of the document's OWN package name: never to be requested ("never the document's own package")
        ("test:doc", None, wit_pkg("package test:doc;\ninterface mine { type t = u8; }\n")),
        ("test:doc", Some(&v100), wit_pkg("package test:doc@1.0.0;\ninterface mine { type t = u16; }\n")),
        ("test:doc", Some(&v200), wit_pkg("package test:doc@2.0.0;\ninterface mine { type t = u32; }\n")),
    ];
    let stmts: Vec<&str> = vec![
        "import a: w:t/api;",
        "import b: w:t/types@1.0.0;",
        "interface k { use w:t/types.{t}; g: func() -> t; }",
        "interface k2 { type z = u8; use w:t/types@2.0.0.{t as t2}; }",
        "world v { include w:t/w; }",
        "world v2 { import w:t/types@1.0.0; export w:t/api; import n: interface { use w:t/types.{r}; }; }",
        "let i = new p:lib { ... };",
        "let j = new q:lib@1.0.0 { y: (new p:lib { ... }).run };",
        "export new q:lib { } as out;",
        "let m = new missing:pkg { ... };",
        "import c: w:t/types@9.9.9;",
        "let d = new p:lib { x: (new q:lib {}).run };",
        "interface mine { type t = string; }",
        "interface k3 { use test:doc/mine.{t}; }",
        "interface k4 { use test:doc/mine@1.0.0.{t}; }",
        "world v3 { import test:doc/mine@2.0.0; }",
    ];
    let mut seqs: Vec<Vec<usize>> = vec![vec![]];
    let mut frontier: Vec<Vec<usize>> = vec![vec![]];
    for _ in 0..maxs { let mut next = vec![]; for l in &frontier { for k in 0..stmts.len() { if !l.contains(&k) { let mut m = l.clone(); m.push(k); next.push(m); } } } seqs.extend(next.iter().cloned()); frontier = next; }
    let (mut docs, mut ok, mut errs) = (0u64, 0u64, 0u64);
    for seq in &seqs { for targets in ["", " targets w:t/w", " targets w:t/w@1.0.0", "@2.0.0", "@1.0.0 targets w:t/w"] {
        if seq.len() == maxs && !targets.is_empty() && seq[0] % 2 == 1 { continue; }
        let src = format!("package test:doc{targets};\n{}\n", seq.iter().map(|i| stmts[*i]).collect::<Vec<_>>().join("\n"));
        let doc = match Document::parse(&src) { Ok(d) => d, Err(e) => { println!("C17-RESOLVE generator produced an unparsable document: {e}\n{src}"); std::process::exit(2); } };
        docs += 1;
        let keys = match wac_resolver::packages(&doc) { Ok(k) => k, Err(e) => { println!("C17-BOUNDED VIOLATION: discovery failed ({e}) for\n{src}"); std::process::exit(1); } };
        if keys.keys().any(|k| k.name == "test:doc") { println!("C17-BOUNDED VIOLATION: discovery reports the document's own package {:?} for\n{src}", keys.keys().map(|k| k.to_string()).collect::<Vec<_>>()); std::process::exit(1); }
        let run = |exact: bool| -> Result<Vec<u8>, String> {
            let mut packages: IndexMap<BorrowedPackageKey, Vec<u8>> = IndexMap::new();
            for (n, v, b) in &lib {
                let key = BorrowedPackageKey::from_name_and_version(n, *v);
                if !exact || keys.contains_key(&key) { packages.insert(key, b.clone()); }
            }
            let res = doc.resolve(packages).map_err(|e| format!("{e}"))?;
            res.encode(Default::default()).map_err(|e| format!("encode: {e}"))
        };
        let (a, b) = (run(true), run(false));
        if a != b {
            println!("C17-BOUNDED VIOLATION: resolving with exactly the discovered packages {:?} gives {:?}, with the whole library {:?}; document:\n{src}",
                keys.keys().map(|k| k.to_string()).collect::<Vec<_>>(), a.as_ref().map(|b| b.len()), b.as_ref().map(|b| b.len()));
            std::process::exit(1);
        }
        if a.is_ok() { ok += 1; } else { errs += 1; }
    } }
    println!("C17-RESOLVE ok {{\"bounded\": true, \"max_statements\": {maxs}, \"documents\": {docs}, \"resolved_identically\": {ok}, \"same_error\": {errs}}}");
}
