//! BOUNDED translation validation for C02 (the encoder - CompositionGraphEncoder::instantiation / alias / the exports
//! loop / encode_names - drives wasm_encoder builders through closures and petgraph iteration: outside Verus's dialect,
//! and a contract would need a ghost model of the binary format).  Random compositions (seeded) over a package whose
//! imports and exports all have the SAME type - so that a mis-wired argument still validates - are built through the real
//! graph API: several instantiations of one package, diamonds, aliases shared by several consumers, explicit imports,
//! implicit imports, nodes exported under several names, explicit imports of an interface type next to implicit imports of
//! the same interface, type definitions exported under a second name.  The output of the REAL encoder (dependencies embedded and
//! imported) is parsed with wasmparser's section readers, its index spaces are reconstructed, and every instance,
//! argument, alias and export is turned into a term (`new k(a=import x, b=(new k(..)).f)`) that must equal the term of
//! the corresponding graph item:
//!   * exactly one `instantiate` per instantiation node, of the right package, with exactly the designated argument under
//!     each name (an explicit import, a named export of a specific instance, or the implicit import of that name);
//!   * every composition export is bound to exactly the designated item;
//!   * embedded dependencies are byte-identical to the registered packages and embedded once; in import mode each
//!     package is imported once;
//!   * the name section maps each named node to an index whose term is that node's term.
//! Exit 0 = agreement, 1 = a disagreeing composition is printed.   usage: c02_wiring [compositions] [seed]
use std::collections::BTreeMap;
use wac_graph::{CompositionGraph, EncodeOptions, NodeId, NodeKind};
use wac_types::{FuncType, ItemKind, Package};
use wasmparser::{ComponentAlias, ComponentExternalKind as K, ComponentInstance, ComponentTypeRef, Parser, Payload};

struct Rng(u64);
impl Rng {
    fn next(&mut self) -> u64 { self.0 = self.0.wrapping_mul(6364136223846793005).wrapping_add(1442695040888963407); self.0 >> 33 }
    fn below(&mut self, n: usize) -> usize { (self.next() % n as u64) as usize }
}

fn pkg_k() -> Vec<u8> {
    wat::parse_str(r#"(component
  (import "a" (func))
  (import "b" (func))
  (core module $m (func (export "f")) (func (export "g")))
  (core instance $i (instantiate $m))
  (func $f (canon lift (core func $i "f")))
  (func $g (canon lift (core func $i "g")))
  (export "f" (func $f))
  (export "g" (func $g))
)"#).unwrap()
}
fn pkg_l() -> Vec<u8> {
    wat::parse_str(r#"(component
  (import "a" (func))
  (core module $m (func (export "h")))
  (core instance $i (instantiate $m))
  (func $h (canon lift (core func $i "h")))
  (export "h" (func $h))
)"#).unwrap()
}

fn pkg_p() -> Vec<u8> {
    // exports a resource TYPE `r` (and a function): the same type export can be aliased from several instances
    wat::parse_str(r#"(component
  (import "a" (func))
  (type $r (resource (rep i32)))
  (core module $m (func (export "f")))
  (core instance $i (instantiate $m))
  (func $f (canon lift (core func $i "f")))
  (export "r" (type $r))
  (export "f" (func $f))
)"#).unwrap()
}
fn pkg_c() -> Vec<u8> {
    wat::parse_str(r#"(component
  (import "r" (type (sub resource)))
  (import "a" (func))
  (core module $m (func (export "h")))
  (core instance $i (instantiate $m))
  (func $h (canon lift (core func $i "h")))
  (export "h" (func $h))
)"#).unwrap()
}

fn pkg_i() -> Vec<u8> {
    // imports an INTERFACE (an instance import whose name is an interface id): an explicit import of the same interface
    // type under another name must stay a separate import
    wat::parse_str(r#"(component
  (import "a:b/c" (instance $i (export "f" (func))))
  (import "a" (func))
  (alias export $i "f" (func $f))
  (export "g" (func $f))
)"#).unwrap()
}

fn pkg_v(ver: &str) -> Vec<u8> {
    // one interface name at two versions that are NOT semver-compatible (0.1 vs 0.2): two imports, never mixed up
    wat::parse_str(&format!(r#"(component
  (import "v:w/x@{ver}" (instance $i (export "f" (func))))
  (alias export $i "f" (func $f))
  (export "g" (func $f))
)"#)).unwrap()
}

#[derive(Clone, Debug)]
enum Origin { Import(String), Alias(u32, String), Instantiate(u32, Vec<(String, K, u32)>), Embedded(usize), Export(K, u32), Def(String), Other }

#[derive(Default)]
struct Spaces { funcs: Vec<Origin>, instances: Vec<Origin>, components: Vec<Origin>, types: Vec<Origin>, exports: Vec<(String, K, u32)>, embedded: Vec<std::ops::Range<usize>>, names: BTreeMap<(u8, u32), String> }

fn read(bytes: &[u8]) -> Result<Spaces, String> {
    let mut s = Spaces::default();
    let mut depth = 0i32;
    for p in Parser::new(0).parse_all(bytes) {
        let p = p.map_err(|e| e.to_string())?;
        match p {
            Payload::ComponentSection { unchecked_range, .. } => { if depth == 0 { s.components.push(Origin::Embedded(s.embedded.len())); s.embedded.push(unchecked_range); } depth += 1; }
            Payload::ModuleSection { .. } => { depth += 1; }
            Payload::End(_) => { depth -= 1; }
            _ if depth > 0 => {}
            Payload::ComponentImportSection(r) => for i in r {
                let i = i.map_err(|e| e.to_string())?;
                let o = Origin::Import(i.name.0.to_string());
                match i.ty { ComponentTypeRef::Func(_) => s.funcs.push(o), ComponentTypeRef::Instance(_) => s.instances.push(o), ComponentTypeRef::Component(_) => s.components.push(o), ComponentTypeRef::Type(_) => s.types.push(o), _ => {} }
            },
            Payload::ComponentInstanceSection(r) => for i in r {
                match i.map_err(|e| e.to_string())? {
                    ComponentInstance::Instantiate { component_index, args } => s.instances.push(Origin::Instantiate(component_index, args.iter().map(|a| (a.name.to_string(), a.kind, a.index)).collect())),
                    ComponentInstance::FromExports(_) => s.instances.push(Origin::Other),
                }
            },
            Payload::ComponentTypeSection(r) => for t in r { match t.map_err(|e| e.to_string())? {
                wasmparser::ComponentType::Defined(wasmparser::ComponentDefinedType::Primitive(p)) => s.types.push(Origin::Def(format!("{p:?}").to_lowercase())),
                _ => s.types.push(Origin::Other),
            } },
            Payload::ComponentAliasSection(r) => for a in r {
                match a.map_err(|e| e.to_string())? {
                    ComponentAlias::InstanceExport { kind, instance_index, name } => { let o = Origin::Alias(instance_index, name.to_string()); match kind { K::Func => s.funcs.push(o), K::Instance => s.instances.push(o), K::Component => s.components.push(o), K::Type => s.types.push(o), _ => {} } }
                    _ => {}
                }
            },
            Payload::ComponentExportSection(r) => for e in r {
                let e = e.map_err(|e| e.to_string())?;
                s.exports.push((e.name.0.to_string(), e.kind, e.index));
                let o = Origin::Export(e.kind, e.index);
                match e.kind { K::Func => s.funcs.push(o), K::Instance => s.instances.push(o), K::Component => s.components.push(o), K::Type => s.types.push(o), _ => {} }
            },
            Payload::CustomSection(c) => if c.name() == "component-name" {
                if let wasmparser::KnownCustom::ComponentName(r) = c.as_known() {
                    for sub in r { match sub.map_err(|e| e.to_string())? {
                        wasmparser::ComponentName::Funcs(m) => for n in m { let n = n.map_err(|e| e.to_string())?; s.names.insert((0, n.index), n.name.to_string()); },
                        wasmparser::ComponentName::Instances(m) => for n in m { let n = n.map_err(|e| e.to_string())?; s.names.insert((1, n.index), n.name.to_string()); },
                        _ => {}
                    } }
                }
            },
            _ => {}
        }
    }
    Ok(s)
}

struct Enc<'a> { s: &'a Spaces, bytes: &'a [u8], pkgs: &'a [(&'static str, Vec<u8>)] }
impl<'a> Enc<'a> {
    fn comp(&self, c: u32) -> String {
        match self.s.components.get(c as usize) {
            Some(Origin::Embedded(k)) => { let b = &self.bytes[self.s.embedded[*k].clone()]; self.pkgs.iter().find(|(_, pb)| pb.as_slice() == b).map(|(n, _)| n.to_string()).unwrap_or("<embedded bytes differ from every registered package>".into()) }
            Some(Origin::Import(n)) => self.pkgs.iter().find(|(pn, _)| n.contains(&format!("<{pn}"))).map(|(pn, _)| pn.to_string()).unwrap_or(format!("<component import {n}>")),
            Some(Origin::Export(_, j)) => self.comp(*j),
            _ => "<?component>".into(),
        }
    }
    fn inst(&self, i: u32) -> String {
        match self.s.instances.get(i as usize) {
            Some(Origin::Instantiate(c, args)) => { let mut a: Vec<String> = args.iter().map(|(n, k, x)| format!("{n}={}", self.item(*k, *x))).collect(); a.sort(); format!("new {}({})", self.comp(*c), a.join(", ")) }
            Some(Origin::Import(n)) => format!("import {n}"),
            Some(Origin::Alias(j, n)) => format!("({}).{n}", self.inst(*j)),
            Some(Origin::Export(_, j)) => self.inst(*j),
            _ => "<?instance>".into(),
        }
    }
    fn func(&self, f: u32) -> String {
        match self.s.funcs.get(f as usize) { Some(Origin::Import(n)) => format!("import {n}"), Some(Origin::Alias(j, n)) => format!("({}).{n}", self.inst(*j)), Some(Origin::Export(_, j)) => self.func(*j), _ => "<?func>".into() }
    }
    fn ty(&self, t: u32) -> String {
        match self.s.types.get(t as usize) { Some(Origin::Import(n)) => format!("import {n}"), Some(Origin::Alias(j, n)) => format!("({}).{n}", self.inst(*j)), Some(Origin::Export(_, j)) => self.ty(*j), Some(Origin::Def(p)) => format!("<definition of {p}>"), _ => "<?type>".into() }
    }
    fn item(&self, k: K, x: u32) -> String { match k { K::Func => self.func(x), K::Instance => self.inst(x), K::Component => self.comp(x), K::Type => self.ty(x), _ => "<?>".into() } }
}

fn graph_term(g: &CompositionGraph, n: NodeId, pkg_names: &BTreeMap<String, &'static str>) -> String {
    match g[n].kind() {
        NodeKind::Import(name) => format!("import {name}"),
        NodeKind::Alias => { let (src, name) = g.get_alias_source(n).unwrap(); format!("({}).{name}", graph_term(g, src, pkg_names)) }
        NodeKind::Instantiation(_) => {
            let pid = g[n].package().unwrap();
            let pname = g[pid].name().to_string();
            let world = &g.types()[g[pid].ty()];
            let passed: BTreeMap<&str, NodeId> = g.get_instantiation_arguments(n).collect();
            let mut a: Vec<String> = world.imports.keys().map(|name| match passed.get(name.as_str()) { Some(src) => format!("{name}={}", graph_term(g, *src, pkg_names)), None => format!("{name}=import {name}") }).collect();
            a.sort();
            format!("new {}({})", pkg_names.get(&pname).copied().unwrap_or("?"), a.join(", "))
        }
        NodeKind::Definition => match g[n].item_kind() {
            ItemKind::Type(wac_types::Type::Value(wac_types::ValueType::Defined(id))) => match &g.types()[id] { wac_types::DefinedType::Alias(wac_types::ValueType::Primitive(p)) => format!("<definition of {}>", format!("{p:?}").to_lowercase()), _ => "<definition>".into() },
            _ => "<definition>".into(),
        },
    }
}

fn main() {
    let n: usize = std::env::args().nth(1).and_then(|s| s.parse().ok()).unwrap_or(300);
    let seed: u64 = std::env::args().nth(2).and_then(|s| s.parse().ok()).unwrap_or(0);
    let mut r = Rng(seed.wrapping_mul(48271).wrapping_add(11));
    let pkgs: Vec<(&'static str, Vec<u8>)> = vec![("t:k", pkg_k()), ("t:l", pkg_l()), ("t:p", pkg_p()), ("t:c", pkg_c()), ("t:i", pkg_i()), ("t:v1", pkg_v("0.1.0")), ("t:v2", pkg_v("0.2.0"))];
    let pkg_names: BTreeMap<String, &'static str> = pkgs.iter().map(|(n, _)| (n.to_string(), *n)).collect();
    let (mut comps, mut instantiations, mut nontrivial) = (0u64, 0u64, std::collections::BTreeSet::new());
    let mut wired = 0u64;
    let mut samples = vec![];
    for c in 0..n {
        let mut g = CompositionGraph::new();
        let mut pids = vec![];
        for (name, bytes) in &pkgs { let p = Package::from_bytes(name, None, bytes.clone(), g.types_mut()).unwrap(); pids.push(g.register_package(p).unwrap()); }
        let fty = g.types_mut().add_func_type(FuncType { params: Default::default(), result: None, is_async: false });
        // a node created first and removed before encoding: node identifiers then have a hole below every other node
        let scratch = if c % 3 == 1 { let n = g.instantiate(pids[0]); let a = g.alias_instance_export(n, "f").unwrap(); g.set_node_name(a, "scratch-alias"); Some(n) } else { None };
        let mut imports: Vec<NodeId> = vec![];
        let mut insts: Vec<(NodeId, usize)> = vec![];
        let mut named = 0;
        for x in 0..r.below(3) { let nn = g.import(format!("x{x}"), ItemKind::Func(fty)).unwrap(); if r.below(2) == 0 { g.set_node_name(nn, format!("imp{x}")); named += 1; } imports.push(nn); }
        // instances in creation order; an argument of instance i is an explicit import, an alias of an EARLIER instance's
        // export (so the composition is a DAG with sharing, diamonds and several instantiations of one package), or implicit
        let ninst = 2 + r.below(4);
        let mut aliases: Vec<NodeId> = vec![];
        let mut iface_imports: Vec<NodeId> = vec![];
        let mut own_name_used = false;
        for i in 0..ninst {
            let k = r.below(7);
            let inst = g.instantiate(pids[k]);
            if r.below(2) == 0 { g.set_node_name(inst, format!("inst{i}")); named += 1; }
            // the consumer's TYPE argument `r`: an alias of the type export `r` of one of the earlier provider instances
            if k == 3 {
                let providers: Vec<NodeId> = insts.iter().filter(|(_, kj)| *kj == 2).map(|(n, _)| *n).collect();
                if !providers.is_empty() && r.below(4) != 0 { let pr = providers[r.below(providers.len())]; let al = g.alias_instance_export(pr, "r").unwrap(); g.set_instantiation_argument(inst, "r", al).unwrap(); }
            }
            // the interface argument `a:b/c`: an explicit import of the interface type under ANOTHER name, or implicit
            if k == 4 && r.below(2) == 0 {
                let src = match iface_imports.last() { Some(n) if r.below(2) == 0 => *n, _ => {
                    let kind = g.types()[g[pids[4]].ty()].imports["a:b/c"];
                    // ... or, once, under the interface's OWN name (an explicit import named like the interface, after one named otherwise)
                    let own = !own_name_used && !iface_imports.is_empty() && r.below(2) == 0;
                    let n = match g.import(if own { "a:b/c".to_string() } else { format!("foo{}", iface_imports.len()) }, kind) { Ok(n) => n, Err(_) => g.import(format!("foo{}", iface_imports.len()), kind).unwrap() };
                    if own { own_name_used = true; }
                    iface_imports.push(n); n } };
                g.set_instantiation_argument(inst, "a:b/c", src).unwrap();
            }
            let args: &[&str] = match k { 0 => &["a", "b"], 5 | 6 => &[], _ => &["a"] };
            for a in args {
                match r.below(10) {
                    0 | 1 | 2 => {}
                    3 | 4 if !imports.is_empty() => { let src = imports[r.below(imports.len())]; g.set_instantiation_argument(inst, a, src).unwrap(); }
                    _ if !insts.is_empty() => {
                        // reuse an existing alias (sharing) or make a new one
                        let src = if !aliases.is_empty() && r.below(3) == 0 { aliases[r.below(aliases.len())] } else {
                            let (j, kj) = insts[r.below(insts.len())]; let names: &[&str] = match kj { 0 => &["f", "g"], 2 => &["f"], 4 | 5 | 6 => &["g"], _ => &["h"] };
                            let al = g.alias_instance_export(j, names[r.below(names.len())]).unwrap(); if r.below(3) == 0 { g.set_node_name(al, format!("alias{}", aliases.len())); named += 1; } aliases.push(al); al };
                        g.set_instantiation_argument(inst, a, src).unwrap();
                    }
                    _ => {}
                }
            }
            insts.push((inst, k));
        }
        // directed shape: two instantiations of t:i, the first given an explicit import `foo..` of the interface, the second an
        // explicit import named like the interface itself (created afterwards)
        if c % 10 == 7 && !own_name_used {
            let kind = g.types()[g[pids[4]].ty()].imports["a:b/c"];
            let f = g.import(format!("foo{}", iface_imports.len()), kind).unwrap(); iface_imports.push(f);
            let i1 = g.instantiate(pids[4]); g.set_instantiation_argument(i1, "a:b/c", f).unwrap(); insts.push((i1, 4));
            if let Ok(o) = g.import("a:b/c", kind) { iface_imports.push(o); let i2 = g.instantiate(pids[4]); g.set_instantiation_argument(i2, "a:b/c", o).unwrap(); insts.push((i2, 4)); }
        }
        // one consumer per provider, each taking the TYPE export `r` of its own provider (the same type export aliased from
        // several instances of one package)
        if c % 2 == 0 {
            let providers: Vec<NodeId> = insts.iter().filter(|(_, kj)| *kj == 2).map(|(n, _)| *n).collect();
            for pr in providers { let cons = g.instantiate(pids[3]); let al = g.alias_instance_export(pr, "r").unwrap(); g.set_instantiation_argument(cons, "r", al).unwrap(); insts.push((cons, 3)); }
        }
        let mut exported = 0;
        let mut funcs: Vec<NodeId> = imports.clone(); funcs.extend(aliases.iter().cloned());
        for (j, kj) in insts.clone() { if r.below(2) == 0 { let names: &[&str] = match kj { 0 => &["f", "g"], 2 => &["f"], 4 | 5 | 6 => &["g"], _ => &["h"] }; funcs.push(g.alias_instance_export(j, names[r.below(names.len())]).unwrap()); } }
        // the designated exports, recorded when the API accepted them (one node may be designated under several names)
        let mut designated: Vec<(String, NodeId)> = vec![];
        for _ in 0..r.below(5) { if !funcs.is_empty() { let f = funcs[r.below(funcs.len())]; let name = format!("out{exported}"); if g.export(f, &name).is_ok() { exported += 1; designated.push((name, f)); } } }
        // explicit interface imports are designated as exports too (whether or not they are also arguments)
        for (x, n) in iface_imports.iter().enumerate() { if r.below(2) == 0 { let name = format!("foo-out{x}"); if g.export(*n, &name).is_ok() { designated.push((name, *n)); } } }
        // sometimes an explicit import of the interface with NO instantiation using it, next to an implicit import of it
        if c % 5 == 0 && iface_imports.is_empty() && insts.iter().any(|(_, k)| *k == 4) {
            let kind = g.types()[g[pids[4]].ty()].imports["a:b/c"];
            let n = g.import("lonely", kind).unwrap(); g.export(n, "lonely-out").unwrap(); designated.push(("lonely-out".into(), n));
        }
        // type definitions, each possibly exported under a second name (both names are exports of the composition)
        for (tname, prim) in [("tya", wac_types::PrimitiveType::U32), ("tyb", wac_types::PrimitiveType::String)] {
            if r.below(3) == 0 {
                let id = g.types_mut().add_defined_type(wac_types::DefinedType::Alias(wac_types::ValueType::Primitive(prim)));
                let d = g.define_type(tname, wac_types::Type::Value(wac_types::ValueType::Defined(id))).unwrap();
                designated.push((tname.to_string(), d));
                if r.below(2) == 0 { let second = format!("{tname}-again"); if g.export(d, &second).is_ok() { designated.push((second, d)); } }
            }
        }
        if let Some(n) = scratch { g.remove_node(n); }
        for define in [true, false] {
            let bytes = match g.encode(EncodeOptions { define_components: define, validate: true, processor: None }) { Ok(b) => b, Err(_) => continue };   // cycles / conflicts: not this property
            comps += 1;
            let show = || format!("composition #{c} (seed {seed}, dependencies {}): nodes {:?}", if define { "embedded" } else { "imported" }, g.node_ids().map(|n| graph_term(&g, n, &pkg_names)).collect::<Vec<_>>());
            let sp = match read(&bytes) { Ok(s) => s, Err(e) => { println!("C02-BOUNDED VIOLATION: the output cannot be read back ({e}): {}", show()); std::process::exit(1); } };
            let enc = Enc { s: &sp, bytes: &bytes, pkgs: &pkgs };
            // instantiations: same multiset of terms
            let mut want: Vec<String> = g.node_ids().filter(|n| matches!(g[*n].kind(), NodeKind::Instantiation(_))).map(|n| graph_term(&g, n, &pkg_names)).collect();
            let mut got: Vec<String> = (0..sp.instances.len() as u32).filter(|i| matches!(sp.instances[*i as usize], Origin::Instantiate(..))).map(|i| enc.inst(i)).collect();
            instantiations += want.len() as u64;
            want.sort(); got.sort();
            if want != got { println!("C02-BOUNDED VIOLATION: encoded instantiations {:?}, the composition has {:?}: {}", got, want, show()); std::process::exit(1); }
            // exports
            let wex: BTreeMap<String, String> = designated.iter().map(|(name, nid)| (name.clone(), graph_term(&g, *nid, &pkg_names))).collect();
            for (name, nid) in &designated { if g.get_export(name) != Some(*nid) { println!("C02-BOUNDED VIOLATION: the designated export `{name}` is no longer bound to its node in the graph: {}", show()); std::process::exit(1); } }
            let gex: BTreeMap<String, String> = sp.exports.iter().map(|(n, k, x)| (n.clone(), enc.item(*k, *x))).collect();
            if wex != gex { println!("C02-BOUNDED VIOLATION: encoded exports {:?}, designated {:?}: {}", gex, wex, show()); std::process::exit(1); }
            // dependencies: embedded once each and byte-identical / imported once each
            let used: std::collections::BTreeSet<usize> = insts.iter().map(|(_, k)| *k).collect();
            let comp_terms: Vec<String> = (0..sp.components.len() as u32).map(|c| enc.comp(c)).collect();
            for k in &used { let cnt = comp_terms.iter().filter(|t| *t == pkgs[*k].0).count(); if cnt != 1 { println!("C02-BOUNDED VIOLATION: package {} appears {cnt} times among the output's components {:?}: {}", pkgs[*k].0, comp_terms, show()); std::process::exit(1); } }
            // names
            for nid in g.node_ids() {
                if let Some(name) = g[nid].name() {
                    let t = graph_term(&g, nid, &pkg_names);
                    let hit = sp.names.iter().filter(|(_, v)| v.as_str() == name).map(|((sp_k, idx), _)| if *sp_k == 0 { enc.func(*idx) } else { enc.inst(*idx) }).collect::<Vec<_>>();
                    if hit.len() != 1 || hit[0] != t { println!("C02-BOUNDED VIOLATION: the name section maps `{name}` to {:?}, the node is {t}: {}", hit, show()); std::process::exit(1); }
                }
            }
            if want.iter().any(|t| t.contains("=(new")) { wired += 1; nontrivial.insert(want.join(";")); }
            if samples.len() < 2 && want.iter().any(|t| t.contains("=(new")) && !wex.is_empty() { samples.push(format!("{:?} exports {:?}", want, wex)); }
        }
        let _ = named;
    }
    if samples.is_empty() { samples.push("(none)".into()); }
    println!("C02-WIRING ok {{\"bounded\": true, \"seed\": {seed}, \"evaluations\": {comps}, \"distinct_nontrivial\": {}, \"instantiations_compared\": {instantiations}, \"compositions_with_instance_to_instance_wiring\": {wired}, \"samples\": {:?}}}", nontrivial.len(), samples);
}
