//! BOUNDED witness search for C09 / C03 over requirements that `use` a resource of another interface (the owner of a used
//! resource is imported implicitly by TypeAggregator::remap_resource, outside the functions unit U5 proves; the encoder
//! then imports the owner under the interface's own id - TypeEncoder::import_deps).
//! (0) chains: every ordered list of 2..5 of the versions 0.2.0, 0.2.1, 0.2.2, 0.2.3, 0.2.10 of a:b/c: one import, named for
//!     the highest version (numerically: 0.2.10 > 0.2.3), and EVERY lower name resolves to it.
//! (1) aggregator level: contributors drawn from
//!       C0 = { a:b/c@0.2.0 {r} }            C1 = { a:b/c@0.2.1 {r, s} }
//!       D0 = { a:b/d@0.2.0 using c@0.2.0.r } (c itself NOT required)      D1 = { a:b/d@0.2.0 using c@0.2.1.r } (likewise)
//!       CD0 = { c@0.2.0, d using it }       CD1 = { c@0.2.1, d using it }   DC1 = the same, d first
//!     every ordered list of 1..3 distinct contributors (each from its own `Types`) is aggregated by the REAL
//!     TypeAggregator.  The property gives: exactly ONE import on the track of a:b/c, named for the highest version that
//!     was required (when a:b/c only comes in as the owner of a used resource: for one of the owners' versions); a:b/d@0.2.0 once when required; every aggregated name resolves
//!     (canonical_import_name) to a present import; the same import names for every order.
//! (1b) nested instance exports (x = {n: {f}} and x = {n: {f, g}}, both orders) and async functions (equal requirements merge
//!     and satisfy both contributors; async vs sync is a conflict in both orders).
//! (2) graph level: packages A (imports foo:bar/types@0.2.0 {r} and foo:bar/api using r), B (imports foo:bar/types@0.2.1
//!     {r, s}), C (imports foo:bar/types@0.2.0 {r}), D (imports foo:bar/types@0.2.1 {r, s} and foo:bar/api using r), E (two
//!     versions of ONE package name, the second needing more of a shared import): every ordered list of 2..3 distinct
//!     instantiations is encoded with validation; the output must validate and import each semver track once, under the
//!     highest version, offering everything every instantiation needs.
//! Exit 0 = agreement, 1 = a disagreeing list is printed.
use indexmap::IndexMap;
use std::collections::{BTreeSet, HashSet};
use wac_graph::{CompositionGraph, EncodeOptions};
use wac_types::*;

fn make_c(types: &mut Types, version: &str, with_s: bool) -> InterfaceId {
    let r = types.add_resource(Resource { name: "r".to_string(), alias: None });
    let mut exports = IndexMap::new();
    exports.insert("r".to_string(), ItemKind::Type(Type::Resource(r)));
    if with_s { let s = types.add_resource(Resource { name: "s".to_string(), alias: None }); exports.insert("s".to_string(), ItemKind::Type(Type::Resource(s))); }
    types.add_interface(Interface { id: Some(format!("a:b/c@{version}")), uses: IndexMap::new(), exports })
}
fn make_d(types: &mut Types, c: InterfaceId) -> InterfaceId {
    let source = match types[c].exports["r"] { ItemKind::Type(Type::Resource(id)) => id, _ => unreachable!() };
    let used_r = types.add_resource(Resource { name: "r".to_string(), alias: Some(ResourceAlias { owner: Some(c), source }) });
    let mut uses = IndexMap::new();
    uses.insert("r".to_string(), UsedType { interface: c, name: None });
    let mut exports = IndexMap::new();
    exports.insert("r".to_string(), ItemKind::Type(Type::Resource(used_r)));
    types.add_interface(Interface { id: Some("a:b/d@0.2.0".to_string()), uses, exports })
}

#[derive(Clone, Copy, Debug, PartialEq, Eq, PartialOrd, Ord)]
enum Contributor { C0, C1, D0, D1, CD0, CD1, DC1 }

/// (requirements in order, versions of c this contributor brings in: required or owning a used resource, requires d)
fn requirements(k: Contributor, types: &mut Types) -> (Vec<(String, ItemKind)>, Vec<&'static str>, bool) {
    let c = |v: &str| format!("a:b/c@{v}");
    let d = "a:b/d@0.2.0".to_string();
    match k {
        Contributor::C0 => { let i = make_c(types, "0.2.0", false); (vec![(c("0.2.0"), ItemKind::Instance(i))], vec!["0.2.0"], false) }
        Contributor::C1 => { let i = make_c(types, "0.2.1", true); (vec![(c("0.2.1"), ItemKind::Instance(i))], vec!["0.2.1"], false) }
        Contributor::D0 => { let i = make_c(types, "0.2.0", false); let j = make_d(types, i); (vec![(d, ItemKind::Instance(j))], vec!["0.2.0"], true) }
        Contributor::D1 => { let i = make_c(types, "0.2.1", true); let j = make_d(types, i); (vec![(d, ItemKind::Instance(j))], vec!["0.2.1"], true) }
        Contributor::CD0 => { let i = make_c(types, "0.2.0", false); let j = make_d(types, i); (vec![(c("0.2.0"), ItemKind::Instance(i)), (d, ItemKind::Instance(j))], vec!["0.2.0"], true) }
        Contributor::CD1 => { let i = make_c(types, "0.2.1", true); let j = make_d(types, i); (vec![(c("0.2.1"), ItemKind::Instance(i)), (d, ItemKind::Instance(j))], vec!["0.2.1"], true) }
        Contributor::DC1 => { let i = make_c(types, "0.2.1", true); let j = make_d(types, i); (vec![(d, ItemKind::Instance(j)), (c("0.2.1"), ItemKind::Instance(i))], vec!["0.2.1"], true) }
    }
}

fn lists<T: Copy + PartialEq>(items: &[T], min: usize, max: usize) -> Vec<Vec<T>> {
    let mut out = vec![]; let mut frontier: Vec<Vec<T>> = vec![vec![]];
    for len in 1..=max {
        let mut next = vec![];
        for l in &frontier { for i in items { if !l.contains(i) { let mut m = l.clone(); m.push(*i); next.push(m); } } }
        if len >= min { out.extend(next.iter().cloned()); }
        frontier = next;
    }
    out
}

fn pkg(imports: &str) -> Vec<u8> { wat::parse_str(&format!("(component\n{imports}\n)")).unwrap_or_else(|e| panic!("{e}\n{imports}")) }

fn main() {
    let (mut cases, mut nontrivial) = (0u64, 0u64);
    let mut samples: Vec<String> = vec![];
    // ---------------- (0) long chains on one track: every order of 2..5 versions of a:b/c (plain instance requirements)
    {
        let versions = ["0.2.0", "0.2.1", "0.2.2", "0.2.3", "0.2.10"];
        let idx: Vec<usize> = (0..versions.len()).collect();
        let newer = |a: &str, b: &str| -> bool { let p = |v: &str| v.rsplit('.').next().unwrap().parse::<u32>().unwrap(); p(a) > p(b) };
        for l in lists(&idx, 2, 5) {
            cases += 1;
            let mut stores: Vec<Types> = l.iter().map(|_| Types::default()).collect();
            let kinds: Vec<ItemKind> = l.iter().zip(stores.iter_mut()).map(|(k, t)| ItemKind::Instance(make_c(t, versions[*k], false))).collect();
            let mut agg = TypeAggregator::new();
            let mut cache = HashSet::new();
            let mut checker = SubtypeChecker::new(&mut cache);
            for ((k, kind), t) in l.iter().zip(kinds.iter()).zip(stores.iter()) {
                agg = match agg.aggregate(&format!("a:b/c@{}", versions[*k]), t, *kind, &mut checker) { Ok(a) => a, Err(e) => { println!("C09-BOUNDED VIOLATION: aggregation of equal requirements failed ({e:#}): versions in order {:?}", l.iter().map(|k| versions[*k]).collect::<Vec<_>>()); std::process::exit(1); } };
            }
            let top = l.iter().map(|k| versions[*k]).fold("0.2.0", |a, b| if newer(b, a) { b } else { a });
            let got: Vec<String> = agg.imports().map(|(n, _)| n.to_string()).collect();
            let show = || format!("versions of a:b/c in order {:?}", l.iter().map(|k| versions[*k]).collect::<Vec<_>>());
            if got != vec![format!("a:b/c@{top}")] { println!("C09-BOUNDED VIOLATION: imports {:?}, the property gives the single import a:b/c@{top}: {}", got, show()); std::process::exit(1); }
            for k in &l {
                let n = format!("a:b/c@{}", versions[*k]);
                let c = agg.canonical_import_name(&n).to_string();
                if c != got[0] { println!("C09-BOUNDED VIOLATION: the lower name `{n}` resolves to `{c}`, not to the canonical import `{}`: {}", got[0], show()); std::process::exit(1); }
            }
            if l.len() >= 4 { nontrivial += 1; }
        }
    }
    // ---------------- (1) aggregator level
    let all = [Contributor::C0, Contributor::C1, Contributor::D0, Contributor::D1, Contributor::CD0, Contributor::CD1, Contributor::DC1];
    for l in lists(&all, 1, 3) {
        cases += 1;
        let mut agg = TypeAggregator::new();
        let mut cache = HashSet::new();
        let mut checker = SubtypeChecker::new(&mut cache);
        let mut versions: BTreeSet<&str> = BTreeSet::new();
        let mut wants_d = false;
        let mut aggregated: Vec<String> = vec![];
        let mut failed = None;
        // each contributor has its own type collection; they must outlive the aggregation
        let mut stores: Vec<Types> = l.iter().map(|_| Types::default()).collect();
        let reqs: Vec<(Vec<(String, ItemKind)>, Vec<&'static str>, bool)> = l.iter().zip(stores.iter_mut()).map(|(k, t)| requirements(*k, t)).collect();
        'outer: for ((rs, vs, dd), t) in reqs.iter().zip(stores.iter()) {
            versions.extend(vs.iter().copied()); wants_d |= *dd;
            for (name, kind) in rs {
                match agg.aggregate(name, t, *kind, &mut checker) { Ok(a) => { agg = a; aggregated.push(name.clone()); } Err(e) => { failed = Some(format!("{e:#}")); agg = TypeAggregator::new(); break 'outer; } }
            }
        }
        let show = || format!("contributors (in order) {:?}", l);
        if let Some(e) = failed { println!("C09-BOUNDED VIOLATION: aggregation of compatible requirements failed ({e}): {}", show()); std::process::exit(1); }
        let got: Vec<String> = agg.imports().map(|(n, _)| n.to_string()).collect();
        let got_set: BTreeSet<String> = got.iter().cloned().collect();
        let mut want: BTreeSet<String> = BTreeSet::new();
        // the canonical name is at least the highest REQUIRED version (a name passed to `aggregate`); a version that only
        // comes in as the owner of a used resource (contributors D0 / D1, which no real package produces) may or may not
        // take part in the naming, so any of the versions present that is not below the highest required one is accepted
        let required: BTreeSet<&str> = aggregated.iter().filter_map(|n| n.strip_prefix("a:b/c@")).collect();
        let floor = required.iter().max().copied().unwrap_or("0.0.0");
        let realistic = !l.iter().any(|k| matches!(k, Contributor::D0 | Contributor::D1));
        let top = versions.iter().max().copied().unwrap();
        let chosen = got.iter().filter_map(|n| n.strip_prefix("a:b/c@")).find(|v| versions.contains(v) && *v >= floor && (!realistic || *v == top)).unwrap_or(top);
        want.insert(format!("a:b/c@{chosen}"));
        if wants_d { want.insert("a:b/d@0.2.0".to_string()); }
        if got.len() != got_set.len() || got_set != want {
            println!("C09-BOUNDED VIOLATION: imports {:?}; the property gives one import per semver track named for the highest version: {:?}; {}", got, want, show());
            std::process::exit(1);
        }
        for n in &aggregated {
            let c = agg.canonical_import_name(n).to_string();
            if !got_set.contains(&c) { println!("C09-BOUNDED VIOLATION: the aggregated name `{n}` resolves to `{c}`, which is not an import ({:?}); {}", got, show()); std::process::exit(1); }
        }
        // the single c import offers everything: `s` whenever some contributor needs it
        let needs_s = versions.contains("0.2.1");
        if let Some((_, ItemKind::Instance(i))) = agg.imports().find(|(n, _)| n.starts_with("a:b/c@")) {
            let has_s = agg.types()[i].exports.contains_key("s");
            if has_s != needs_s || !agg.types()[i].exports.contains_key("r") { println!("C09-BOUNDED VIOLATION: the merged a:b/c import has exports {:?}; {}", agg.types()[i].exports.keys().collect::<Vec<_>>(), show()); std::process::exit(1); }
        }
        if l.len() > 1 && versions.len() > 1 { nontrivial += 1; }
        if samples.len() < 2 && l.len() == 3 && versions.len() > 1 { samples.push(format!("{} => {:?}", show(), got)); }
    }
    let mut findings: Vec<String> = vec![];
    // ---------------- (1b) nested instance exports and async functions (plain name `x`, separate type collections)
    {
        let func = |t: &mut Types, is_async: bool| t.add_func_type(FuncType { params: Default::default(), result: None, is_async });
        // x = { n: instance { f [, g] } }
        let nested = |t: &mut Types, with_g: bool| -> ItemKind {
            let f = func(t, false);
            let mut inner: IndexMap<String, ItemKind> = [("f".to_string(), ItemKind::Func(f))].into_iter().collect();
            if with_g { let g = func(t, false); inner.insert("g".to_string(), ItemKind::Func(g)); }
            let n = t.add_interface(Interface { id: None, uses: Default::default(), exports: inner });
            ItemKind::Instance(t.add_interface(Interface { id: None, uses: Default::default(), exports: [("n".to_string(), ItemKind::Instance(n))].into_iter().collect() }))
        };
        for order in [[false, true], [true, false], [true, true], [false, false]] {
            cases += 1;
            let mut stores = [Types::default(), Types::default()];
            let kinds = [nested(&mut stores[0], order[0]), nested(&mut stores[1], order[1])];
            let mut cache = HashSet::new();
            let mut checker = SubtypeChecker::new(&mut cache);
            let mut agg = TypeAggregator::new();
            for i in 0..2 { agg = agg.aggregate("x", &stores[i], kinds[i], &mut checker).unwrap_or_else(|e| { println!("C09-BOUNDED VIOLATION: nested instance requirements {order:?} (with g) do not merge: {e:#}"); std::process::exit(1) }); }
            let (_, merged) = agg.imports().next().unwrap();
            for i in 0..2 {
                if let Err(e) = checker.is_subtype(merged, agg.types(), kinds[i], &stores[i]) {
                    let msg = format!("requirements x = {{n: {{f{}}}}} then x = {{n: {{f{}}}}}: the merged type does not satisfy contributor #{i} ({e:#})", if order[0] { ", g" } else { "" }, if order[1] { ", g" } else { "" });
                    if order[0] != order[1] { findings.push(format!("FINDING nested-instance-export-keeps-the-smaller {msg}")); } else { println!("C09-BOUNDED VIOLATION: {msg}"); std::process::exit(1); }
                }
            }
            nontrivial += 1;
        }
        // x = { h: [async] func }, and the bare function x
        for (a0, a1) in [(true, true), (false, false), (true, false), (false, true)] { for bare in [false, true] {
            cases += 1;
            let mut stores = [Types::default(), Types::default()];
            let mk = |t: &mut Types, is_async: bool| -> ItemKind { let f = func(t, is_async); if bare { ItemKind::Func(f) } else { ItemKind::Instance(t.add_interface(Interface { id: None, uses: Default::default(), exports: [("h".to_string(), ItemKind::Func(f))].into_iter().collect() })) } };
            let kinds = [mk(&mut stores[0], a0), mk(&mut stores[1], a1)];
            let mut cache = HashSet::new();
            let mut checker = SubtypeChecker::new(&mut cache);
            let mut agg = Some(TypeAggregator::new());
            let mut err = None;
            for i in 0..2 { match agg.take().unwrap().aggregate("x", &stores[i], kinds[i], &mut checker) { Ok(a) => agg = Some(a), Err(e) => { err = Some(format!("{e:#}")); break; } } }
            let what = format!("{} requirement with async = {a0} then async = {a1}", if bare { "function" } else { "instance-with-a-function" });
            match (a0 == a1, err) {
                (true, Some(e)) => { println!("C09-BOUNDED VIOLATION: equal requirements fail to merge ({e}): {what}"); std::process::exit(1); }
                (false, None) => { println!("C09-BOUNDED VIOLATION: an async and a sync definition of the same function were merged: {what}"); std::process::exit(1); }
                (true, None) => { let a = agg.unwrap(); let (_, merged) = a.imports().next().unwrap(); for i in 0..2 { if let Err(e) = checker.is_subtype(merged, a.types(), kinds[i], &stores[i]) { println!("C09-BOUNDED VIOLATION: {what}: the merged type does not satisfy contributor #{i} ({e:#})"); std::process::exit(1); } } nontrivial += 1; }
                (false, Some(_)) => {}
            }
        } }
    }
    // ---------------- (1c) core module and component requirements (plain name `x`): the merged type must satisfy both
    {
        let mem = |initial: u64| CoreExtern::Memory { memory64: false, shared: false, initial, maximum: None, page_size_log2: None };
        let module = |t: &mut Types, initial: u64| ItemKind::Module(t.add_module_type(ModuleType { imports: Default::default(), exports: [("m".to_string(), mem(initial))].into_iter().collect() }));
        let comp = |t: &mut Types, import: &str| { let f = t.add_func_type(FuncType { params: Default::default(), result: None, is_async: false }); ItemKind::Component(t.add_world(World { id: None, uses: Default::default(), imports: [(import.to_string(), ItemKind::Func(f))].into_iter().collect(), exports: Default::default() })) };
        for case in 0..4 {
            cases += 1;
            let mut stores = [Types::default(), Types::default()];
            let (kinds, what) = match case {
                0 => ([module(&mut stores[0], 1), module(&mut stores[1], 2)], "module exporting a memory of at least 1 page, then of at least 2 pages"),
                1 => ([module(&mut stores[0], 2), module(&mut stores[1], 1)], "module exporting a memory of at least 2 pages, then of at least 1 page"),
                2 => ([comp(&mut stores[0], "p"), comp(&mut stores[1], "q")], "component importing `p`, then a component importing `q`"),
                _ => ([comp(&mut stores[0], "p"), comp(&mut stores[1], "p")], "component importing `p`, twice"),
            };
            let mut cache = HashSet::new();
            let mut checker = SubtypeChecker::new(&mut cache);
            let mut agg = Some(TypeAggregator::new());
            let mut err = None;
            for i in 0..2 { match agg.take().unwrap().aggregate("x", &stores[i], kinds[i], &mut checker) { Ok(a) => agg = Some(a), Err(e) => { err = Some(format!("{e:#}")); break; } } }
            match err {
                Some(e) => { if case == 3 { println!("C09-BOUNDED VIOLATION: equal component requirements fail to merge ({e})"); std::process::exit(1); } }   // a conflict is a legitimate answer for the others
                None => { let a = agg.unwrap(); let (_, merged) = a.imports().next().unwrap();
                    for i in 0..2 { let mut c2 = HashSet::new(); if let Err(e) = SubtypeChecker::new(&mut c2).is_subtype(merged, a.types(), kinds[i], &stores[i]) {
                        if case == 3 { println!("C09-BOUNDED VIOLATION: {what}: the merged type does not satisfy contributor #{i} ({e:#})"); std::process::exit(1); }
                        findings.push(format!("FINDING module-and-component-requirements-keep-the-supertype requirement x = {what}: merged without a conflict, but the merged type does not satisfy contributor #{i} ({e:#})")); break; } } }
            }
        }
    }
    // ---------------- (2) graph level
    let types_r = |v: &str| format!("  (type $t (instance (export \"r\" (type (sub resource)))))\n  (import \"foo:bar/types@{v}\" (instance $types (type $t)))");
    let types_rs = |v: &str| format!("  (type $t (instance (export \"r\" (type (sub resource))) (export \"s\" (type (sub resource)))))\n  (import \"foo:bar/types@{v}\" (instance $types (type $t)))");
    let api = "  (alias export $types \"r\" (type $r))\n  (type $a (instance (alias outer 1 $r (type (;0;))) (export \"r\" (type (eq 0))) (type (own 1)) (type (func (param \"x\" 2))) (export \"do-something\" (func (type 3)))))\n  (import \"foo:bar/api\" (instance (type $a)))";
    let shared = |with_g: bool| format!("  (import \"foo:bar/shared\" (instance (export \"f\" (func)){}))", if with_g { " (export \"g\" (func))" } else { "" });
    let pkgs: Vec<(&str, Option<&str>, Vec<u8>, Vec<&str>, bool)> = vec![   // (name, version, bytes, versions of types, needs api)
        ("test:a", None, pkg(&format!("{}\n{api}", types_r("0.2.0"))), vec!["0.2.0"], true),
        ("test:b", None, pkg(&types_rs("0.2.1")), vec!["0.2.1"], false),
        ("test:c", None, pkg(&types_r("0.2.0")), vec!["0.2.0"], false),
        ("test:d", None, pkg(&format!("{}\n{api}", types_rs("0.2.1"))), vec!["0.2.1"], true),
        ("test:e", Some("1.0.0"), pkg(&shared(false)), vec![], false),
        ("test:e", Some("2.0.0"), pkg(&shared(true)), vec![], false),
    ];
    let idx: Vec<usize> = (0..pkgs.len()).collect();
    for l in lists(&idx, 2, 3) {
        cases += 1;
        let mut g = CompositionGraph::new();
        let mut ids = vec![];
        for (name, ver, bytes, _, _) in &pkgs {
            let v = ver.map(|v| semver::Version::parse(v).unwrap());
            let p = Package::from_bytes(name, v.as_ref(), bytes.clone(), g.types_mut()).unwrap();
            ids.push(g.register_package(p).unwrap());
        }
        for k in &l { g.instantiate(ids[*k]); }
        let show = || format!("instantiations (in creation order) {:?}", l.iter().map(|k| format!("{}{}", pkgs[*k].0, pkgs[*k].1.map(|v| format!("@{v}")).unwrap_or_default())).collect::<Vec<_>>());
        let bytes = match g.encode(EncodeOptions { define_components: true, validate: true, processor: None }) {
            Ok(b) => b,
            Err(e) => { println!("C03-BOUNDED VIOLATION: a composition of instantiations with compatible implicit imports does not encode ({e:#}): {}", show()); std::process::exit(1); }
        };
        let mut types = Types::default();
        let out = Package::from_bytes("out", None, bytes, &mut types).unwrap();
        let world = &types[out.ty()];
        let got: Vec<String> = world.imports.keys().cloned().collect();
        let mut want: BTreeSet<String> = BTreeSet::new();
        let vs: BTreeSet<&str> = l.iter().flat_map(|k| pkgs[*k].3.iter().copied()).collect();
        if let Some(v) = vs.iter().max() { want.insert(format!("foo:bar/types@{v}")); }
        if l.iter().any(|k| pkgs[*k].4) { want.insert("foo:bar/api".to_string()); }
        if l.iter().any(|k| pkgs[*k].0 == "test:e") { want.insert("foo:bar/shared".to_string()); }
        let got_set: BTreeSet<String> = got.iter().cloned().collect();
        if got.len() != got_set.len() || got_set != want { println!("C03-BOUNDED VIOLATION: the output imports {:?}; implied by the composition: {:?} (one import per semver track, highest version): {}", got, want, show()); std::process::exit(1); }
        // the shared import offers what every instantiation needs
        if let Some(ItemKind::Instance(i)) = world.imports.get("foo:bar/shared") {
            let need_g = l.iter().any(|k| pkgs[*k].1 == Some("2.0.0"));
            if types[*i].exports.contains_key("g") != need_g || !types[*i].exports.contains_key("f") { println!("C03-BOUNDED VIOLATION: the shared import `foo:bar/shared` offers {:?}: {}", types[*i].exports.keys().collect::<Vec<_>>(), show()); std::process::exit(1); }
        }
        if let Some(v) = vs.iter().max() { if let Some(ItemKind::Instance(i)) = world.imports.get(&format!("foo:bar/types@{v}")) {
            if types[*i].exports.contains_key("s") != vs.contains("0.2.1") { println!("C03-BOUNDED VIOLATION: the shared import of foo:bar/types offers {:?}: {}", types[*i].exports.keys().collect::<Vec<_>>(), show()); std::process::exit(1); }
        } }
        if vs.len() > 1 || l.iter().filter(|k| pkgs[**k].0 == "test:e").count() > 1 { nontrivial += 1; }
        if samples.len() < 4 && vs.len() > 1 && l.len() == 3 { samples.push(format!("{} => {:?}", show(), got)); }
    }
    for f in &findings { println!("{f}"); }
    if !findings.is_empty() {
        println!("C09-USES findings {{\"bounded\": true, \"evaluations\": {cases}, \"distinct_nontrivial\": {nontrivial}, \"samples\": {:?}}}", samples);
        std::process::exit(3);
    }
    println!("C09-USES ok {{\"bounded\": true, \"evaluations\": {cases}, \"distinct_nontrivial\": {nontrivial}, \"samples\": {:?}}}", samples);
}
