//! BOUNDED check of C05 ("WIT declarations in WAC mean what WIT means"): the oracle is the reference WIT toolchain's
//! encoding of the same text - no contract on wac functions implies or refutes it, and the functions involved
//! (interface_decl / world_decl / use_type / resource_decl / world_include in the resolver, TypeEncoder in the encoder)
//! are closure-heavy code outside Verus's dialect; the relation used to compare, SubtypeChecker::is_subtype, is the one
//! unit U3 proves.  For each text of a family inside the shared WIT/WAC subset (every value-type constructor, records,
//! variants, enums, flags, aliases, resources with constructor / method / static, own and borrow, chains and diamonds of
//! `use` with renames, worlds with named / inline / path imports and exports, `include ... with`):
//!   WAC:  `package test:pkg;` + text  -> Document::parse -> resolve -> encode -> Package::from_bytes
//!   WIT:  `package test:pkg;` + text  -> wit-parser -> wit-component::encode   -> Package::from_bytes
//! and every declared interface / world must be a mutual subtype of its counterpart (real SubtypeChecker), with the same
//! explicit import and export names for worlds.
//! Exit 0 = equivalent everywhere, 1 = a differing declaration is printed, 2 = a text outside the shared subset.
use std::collections::HashSet;
use wac_parser::Document;
use wac_types::{ItemKind, Package, SubtypeChecker, Type, Types};

fn texts() -> Vec<(&'static str, Vec<&'static str>, Vec<&'static str>)> {
    // (declarations, interface names, world names)
    vec![
        ("interface a { type t = u32; f: func(x: t) -> t; }", vec!["a"], vec![]),
        ("interface a { record r { x: u8, y: list<string> } variant v { n, s(string), r(r) } enum e { p, q } flags fl { one, two } type al = option<result<r, e>>; g: func(a: v, b: fl, c: al) -> tuple<u8, char, f32, f64, bool, s64>; }", vec!["a"], vec![]),
        ("interface a { resource res { constructor(n: string); m: func(x: u8) -> string; s: static func() -> res; } take: func(r: res); lend: func(r: borrow<res>) -> res; }", vec!["a"], vec![]),
        ("interface a { type t = u32; record r { x: t } }\ninterface b { use a.{t, r as rr}; f: func(x: rr) -> t; }", vec!["a", "b"], vec![]),
        ("interface a { type t = string; }\ninterface b { use a.{t}; type u = list<t>; }\ninterface c { use a.{t}; use b.{u as uu}; f: func(x: t, y: uu); }", vec!["a", "b", "c"], vec![]),
        ("interface a { resource res { constructor(); } }\ninterface b { use a.{res}; mk: func() -> res; look: func(r: borrow<res>); }", vec!["a", "b"], vec![]),
        ("interface a { type t = u8; f: func() -> t; }\nworld w { import a; export run: func(); }", vec!["a"], vec!["w"]),
        ("interface a { type t = u8; }\nworld w { use a.{t}; import f: func(x: t) -> t; export g: func() -> result<t, string>; import i: interface { h: func() -> option<u8>; }§ export a; }", vec!["a"], vec!["w"]),
        ("interface a { f: func(); }\ninterface b { g: func(); }\nworld w1 { import a; export b; }\nworld w2 { include w1; import x: func(); }", vec!["a", "b"], vec!["w1", "w2"]),
        ("world w1 { import f: func(); export g: func(); }\nworld w2 { include w1 with { f as ff, g as gg }§ }", vec![], vec!["w1", "w2"]),
        ("interface a { type t = u32; type u = string; resource res { constructor(); } resource other { constructor(); } }\ninterface b { use a.{t as u, res as other}; }\ninterface c { use b.{u as v, other as mine}; f: func(x: v, y: borrow<mine>) -> v; }", vec!["a", "b", "c"], vec![]),
        ("interface a { type t = u32; }\ninterface b { use a.{t}; }\ninterface c { use b.{t}; }\ninterface d { use c.{t as tt}; g: func() -> tt; }", vec!["a", "b", "c", "d"], vec![]),
        ("interface a { type t = u8; }\nworld w { import a; use a.{t}; export g: func(x: t); }", vec!["a"], vec!["w"]),
        ("#key:world-use-after-inline-interface-use#interface a { resource r { constructor(); } }\nworld w { import i: interface { use a.{r}; f: func(x: borrow<r>); }§ use a.{r}; export g: func(x: r); }", vec!["a"], vec!["w"]),
        ("#key:include-drops-used-types#interface a { type t = u8; }\nworld w1 { use a.{t}; import f: func(x: t); }\nworld w2 { include w1; export g: func(); }", vec!["a"], vec!["w1", "w2"]),
        // the same members declared in different orders (discriminants / bit positions / layout follow the declaration)
        ("interface a { enum color { red, green, blue } flags p { r, w, x } record rec { x: u8, y: u16, z: string } variant v { a(u8), b, c(string) } f: func(c: color, p: p, r: rec, v: v); }\ninterface b { enum color { blue, green, red } flags p { x, w, r } record rec { z: string, y: u16, x: u8 } variant v { c(string), b, a(u8) } f: func(c: color, p: p, r: rec, v: v); }\ninterface c { enum color { red, green, blue } enum colour { green, blue, red } flags p { r, w, x } flags q { w, x, r } g: func(a: color, b: colour, c: p, d: q); }", vec!["a", "b", "c"], vec![]),
        ("interface a { enum e { one, two } }\nworld w { enum e { two, one } flags f { b, a } import g: func(x: e, y: f); }\nworld w2 { flags f { a, b } enum e { one, two } export g: func(x: e, y: f); }", vec!["a"], vec!["w", "w2"]),
        // an interface without `use`s that declares a type under a name another interface (encoded before it in the same
        // scope) has `use`d: the two types stay different
        ("interface a { type t = u32; }\ninterface y { record t { x: string } f: func(v: t); }\nworld w { use a.{t}; import y; export g: func(v: t); }", vec!["a", "y"], vec!["w"]),
        ("interface a { type t = u32; }\ninterface b { use a.{t}; type u = list<t>; }\ninterface d { record t { x: string } }\ninterface c { use b.{u}; use d.{t as v}; f: func(p: u, q: v); }\nworld w2 { import c; import d; }", vec!["a", "b", "d", "c"], vec!["w2"]),
        // a world importing an interface and, AFTER it, an interface it depends on
        ("interface d { record t { x: string } }\ninterface c { use d.{t as v}; f: func(q: v); }\nworld w3 { import c; import d; }\nworld w4 { import d; import c; }\nworld w5 { export c; import d; }", vec!["d", "c"], vec!["w3", "w4", "w5"]),
        // `include .. with` renames an import and an export of the same name
        ("world w1 { import a: func(); export a: func(); }\nworld w2 { include w1 with { a as b }§ }", vec![], vec!["w1", "w2"]),
        ("interface a { variant v { a(list<tuple<u8, u16>>), b(option<option<string>>), c(result), d(result<u8>), e(result<_, u8>) } f: func(x: v); }", vec!["a"], vec![]),
    ]
}

fn counterpart(types: &Types, k: ItemKind) -> ItemKind {
    // wit-component wraps each interface / world of a WIT package in a component type: unwrap to the instance / component
    match k {
        ItemKind::Type(Type::World(w)) if types[w].imports.is_empty() && types[w].exports.len() == 1 => match types[w].exports.values().next().copied() { Some(inner @ (ItemKind::Instance(_) | ItemKind::Component(_))) => inner, _ => k },
        ItemKind::Type(Type::Interface(i)) => ItemKind::Instance(i),
        other => other,
    }
}
fn as_item(k: ItemKind) -> ItemKind { match k { ItemKind::Type(Type::Interface(i)) => ItemKind::Instance(i), ItemKind::Type(Type::World(w)) => ItemKind::Component(w), o => o } }

fn main() {
    let (mut decls, mut texts_n) = (0u64, 0u64);
    let mut samples = vec![];
    let mut findings: Vec<String> = vec![];
    'texts: for (ti, (text, ifaces, worlds)) in texts().iter().enumerate() {
        texts_n += 1;
        // texts on which a recorded, unrepaired defect is expected carry `#key:<class>#` in front
        let (key, text): (Option<&str>, &str) = match text.strip_prefix("#key:") { Some(rest) => { let (k, t) = rest.split_once('#').unwrap(); (Some(k), t) } None => (None, text) };
        let known = |what: String, findings: &mut Vec<String>| -> bool { if let Some(k) = key { findings.push(format!("FINDING {k} {what}")); true } else { false } };
        // `§` marks the one syntactic difference inside the family: WAC terminates an inline interface item and an
        // `include .. with { }` item with `;`, WIT does not
        let src = format!("package test:pkg;\n{}\n", text.replace('§', ";"));
        let doc = match Document::parse(&src) { Ok(d) => d, Err(e) => { println!("C05-WIT text #{ti} is not accepted by the WAC parser ({e}): outside the shared subset\n{src}"); std::process::exit(2); } };
        let wac_bytes = match doc.resolve(Default::default()).map_err(|e| e.to_string()).and_then(|r| r.encode(Default::default()).map_err(|e| format!("{e:#}"))) { Ok(b) => b, Err(e) => { if known(format!("text #{ti} is valid WIT but WAC does not resolve / encode it ({e}): {}", src.replace('\n', " ")), &mut findings) { continue 'texts; } println!("C05-BOUNDED VIOLATION: text #{ti} is valid WIT but WAC does not resolve / encode it ({e}):\n{src}"); std::process::exit(1); } };
        let wit_src = format!("package test:pkg;\n{}\n", text.replace('§', ""));
        let mut resolve = wit_parser::Resolve::new();
        let pkg = match resolve.push_str("t.wit", &wit_src) { Ok(p) => p, Err(e) => { println!("C05-WIT text #{ti} is not accepted by wit-parser ({e:#}): outside the shared subset\n{src}"); std::process::exit(2); } };
        let wit_bytes = wit_component::encode(&resolve, pkg).unwrap();
        let mut types = Types::default();
        let wac = Package::from_bytes("wac", None, wac_bytes, &mut types).unwrap_or_else(|e| { println!("C05-BOUNDED VIOLATION: WAC's encoding of text #{ti} does not decode ({e:#})"); std::process::exit(1) });
        let wit = Package::from_bytes("wit", None, wit_bytes, &mut types).unwrap();
        for name in ifaces.iter().chain(worlds.iter()) {
            decls += 1;
            let a = types[wac.ty()].exports.get(*name).copied();
            let b = types[wit.ty()].exports.get(*name).copied();
            let (Some(a), Some(b)) = (a, b) else { if known(format!("`{name}` of text #{ti} is missing from one encoding: {}", src.replace('\n', " ")), &mut findings) { continue 'texts; } println!("C05-BOUNDED VIOLATION: `{name}` of text #{ti} is exported by WAC's encoding: {}, by the reference encoding: {}\n{src}", a.is_some(), b.is_some()); std::process::exit(1) };
            let (a, b) = (as_item(counterpart(&types, a)), as_item(counterpart(&types, b)));
            let mut cache = HashSet::new();
            let mut chk = SubtypeChecker::new(&mut cache);
            let ab = chk.is_subtype(a, &types, b, &types);
            let ba = chk.is_subtype(b, &types, a, &types);
            if let (Err(e), _) | (_, Err(e)) = (&ab, &ba) {
                if known(format!("`{name}` of text #{ti}: not mutual subtypes (wac<=wit: {}, wit<=wac: {}; {e:#}): {}", ab.is_ok(), ba.is_ok(), src.replace('\n', " ")), &mut findings) { continue 'texts; }
                println!("C05-BOUNDED VIOLATION: `{name}` of text #{ti}: WAC's type and the reference WIT encoding are not mutual subtypes (wac<=wit: {}, wit<=wac: {}): {e:#}\n{src}", ab.is_ok(), ba.is_ok());
                std::process::exit(1);
            }
            if worlds.contains(name) {
                if let (ItemKind::Component(wa), ItemKind::Component(wb)) = (a, b) {
                    let names = |w: wac_types::WorldId| (types[w].imports.keys().cloned().collect::<Vec<_>>(), types[w].exports.keys().cloned().collect::<Vec<_>>());
                    let (na, nb) = (names(wa), names(wb));
                    let sorted = |mut v: Vec<String>| { v.sort(); v };
                    if sorted(na.0.clone()) != sorted(nb.0.clone()) || sorted(na.1.clone()) != sorted(nb.1.clone()) { if known(format!("world `{name}` of text #{ti}: WAC imports/exports {:?}, reference {:?}: {}", na, nb, src.replace('\n', " ")), &mut findings) { continue 'texts; } println!("C05-BOUNDED VIOLATION: world `{name}` of text #{ti}: WAC imports/exports {:?}, reference {:?}\n{src}", na, nb); std::process::exit(1); }
                } else { println!("C05-BOUNDED VIOLATION: world `{name}` of text #{ti} does not decode to a component type on both sides ({a:?} / {b:?})"); std::process::exit(1); }
            }
            if samples.len() < 3 { samples.push(format!("text #{ti} `{name}`: mutual subtypes")); }
        }
    }
    for f in &findings { println!("{f}"); }
    println!("C05-WIT {} {{\"bounded\": true, \"evaluations\": {decls}, \"distinct_nontrivial\": {decls}, \"texts\": {texts_n}, \"samples\": {:?}}}", if findings.is_empty() { "ok" } else { "findings" }, samples);
    std::process::exit(if findings.is_empty() { 0 } else { 3 });
}
