//! BOUNDED (exhaustive over a small space, as the property itself is quantified) stand-in for
//! FileSystemPackageResolver::resolve (C18).  The function is PathBuf / OsString / std::fs code: outside Verus's dialect
//! (no specifications for paths or the file system) and outside Kani's reach (syscalls), so it has no contract of its own.
//! Every combination of
//!   layout:   <deps>/ns/name[/version] is a WIT directory | absent;  `<base>.wat` present | absent;  `<base>.wasm` present |
//!             absent;  (a decoy `<base with the version's last component replaced>.wasm` is always present)
//!   override: none | `--dep name=<existing file>` | `--dep name=<dangling path>`
//!   key:      a:b | a:b:c | a:b@1.2.3 | a:b@1.2.3-rc.1+build.5
//!   mode:     unknown packages are an error | skipped
//! is created in a scratch directory and resolved by the REAL resolver (features `wat` and `wit` on, as in the CLI); the
//! outcome is compared with the documented layout and precedence: a directory is read as a WIT package; otherwise
//! `.wat` is preferred over `.wasm`; the extension is APPENDED (never replaces a version's last component); an override
//! applies to unversioned references only and must exist; a missing package is skipped or reported as unknown; the
//! bytes are exactly the file's component bytes (or the encoding of the WAT / WIT found).
//! Then every present / missing pattern of THREE keys in one call, in both modes (each key is looked up on its own).
//! Exit 0 = agreement on every combination, 1 = a disagreeing combination is printed.
use indexmap::IndexMap;
use miette::SourceSpan;
use std::{collections::HashMap, fs, path::PathBuf};
use wac_resolver::{Error, FileSystemPackageResolver};
use wac_types::BorrowedPackageKey;

const WASM_A: &str = r#"(component (import "from-wasm" (func)))"#;
const WAT_B: &str = r#"(component (import "from-wat" (func)))"#;
const OVERRIDE_C: &str = r#"(component (import "from-override" (func)))"#;
const DECOY_D: &str = r#"(component (import "decoy" (func)))"#;
const WIT_E: &str = "package a:b;\ninterface i { f: func(); }\n";

#[derive(Debug, PartialEq)]
enum Out { Bytes(&'static str), Skipped, Unknown, Failure }

fn main() {
    let root = std::env::temp_dir().join(format!("c18_fs_{}", std::process::id()));
    let _ = fs::remove_dir_all(&root);
    let keys: [(&str, Option<&str>); 4] = [("a:b", None), ("a:b:c", None), ("a:b", Some("1.2.3")), ("a:b", Some("1.2.3-rc.1+build.5"))];
    let (mut combos, mut nontrivial) = (0u64, 0u64);
    let mut samples = vec![];
    for (ki, (name, ver)) in keys.iter().enumerate() {
        for dir in [false, true] { for wat in [false, true] { for wasm in [false, true] { for ov in 0..3 { for err_unknown in [false, true] {
            combos += 1;
            let deps = root.join(format!("case{combos}")).join("deps");
            let mut base = deps.clone();
            for seg in name.split(':') { base.push(seg); }
            if let Some(v) = ver { base.push(v); }
            fs::create_dir_all(base.parent().unwrap()).unwrap();
            let with_ext = |ext: &str| { let mut s = base.clone().into_os_string(); s.push("."); s.push(ext); PathBuf::from(s) };
            if dir { fs::create_dir_all(&base).unwrap(); fs::write(base.join("pkg.wit"), WIT_E).unwrap(); }
            if wat { fs::write(with_ext("wat"), WAT_B).unwrap(); }
            if wasm { fs::write(with_ext("wasm"), wat::parse_str(WASM_A).unwrap()).unwrap(); }
            // decoy at the path obtained by REPLACING the last extension-like component (e.g. 1.2.wasm for version 1.2.3)
            if ver.is_some() { let mut d = base.clone(); d.set_extension("wasm"); if d != with_ext("wasm") && !d.exists() { fs::write(&d, wat::parse_str(DECOY_D).unwrap()).unwrap(); } }
            let mut overrides: HashMap<String, PathBuf> = HashMap::new();
            let ov_file = deps.parent().unwrap().join("override.wasm");
            match ov { 1 => { fs::write(&ov_file, wat::parse_str(OVERRIDE_C).unwrap()).unwrap(); overrides.insert(name.to_string(), ov_file.clone()); } 2 => { overrides.insert(name.to_string(), deps.parent().unwrap().join("missing.wasm")); } _ => {} }
            // ---- the documented behaviour
            let want = if ov != 0 && ver.is_none() {
                if ov == 1 { Out::Bytes("from-override") } else { Out::Failure }
            } else if dir { Out::Bytes("wit")
            } else if wat { Out::Bytes("from-wat")
            } else if wasm { Out::Bytes("from-wasm")
            } else if err_unknown { Out::Unknown } else { Out::Skipped };
            // ---- the real resolver
            let version = ver.map(|v| semver::Version::parse(v).unwrap());
            let key = BorrowedPackageKey::from_name_and_version(name, version.as_ref());
            let mut ks: IndexMap<BorrowedPackageKey, SourceSpan> = IndexMap::new();
            ks.insert(key, SourceSpan::new(0.into(), 0));
            let resolver = FileSystemPackageResolver::new(&deps, overrides, err_unknown);
            let got = match resolver.resolve(&ks) {
                Ok(m) => match m.get(&key) {
                    None => Out::Skipped,
                    Some(bytes) => {
                        // identify the source by the marker import name; a WIT package encodes to a component with no such marker
                        let text = String::from_utf8_lossy(bytes);
                        if bytes == &wat::parse_str(WASM_A).unwrap() { Out::Bytes("from-wasm") }
                        else if bytes == &wat::parse_str(WAT_B).unwrap() { Out::Bytes("from-wat") }
                        else if bytes == &wat::parse_str(OVERRIDE_C).unwrap() { Out::Bytes("from-override") }
                        else if bytes == &wat::parse_str(DECOY_D).unwrap() { Out::Bytes("decoy") }
                        else if text.contains("from-") || text.contains("decoy") { Out::Bytes("altered") }
                        else { Out::Bytes("wit") }
                    }
                },
                Err(Error::UnknownPackage { .. }) => Out::Unknown,
                Err(_) => Out::Failure,
            };
            if got != want {
                println!("C18-BOUNDED VIOLATION: key {name}{} with layout [dir: {dir}, .wat: {wat}, .wasm: {wasm}], override {}, unknown-is-error {err_unknown}: the resolver gives {:?}, the documented lookup gives {:?}",
                    ver.map(|v| format!("@{v}")).unwrap_or_default(), ["none", "existing file", "dangling"][ov], got, want);
                let _ = fs::remove_dir_all(&root);
                std::process::exit(1);
            }
            if matches!(want, Out::Bytes(_)) { nontrivial += 1; }
            if samples.len() < 3 && combos % 61 == 7 { samples.push(format!("{name}{} dir={dir} wat={wat} wasm={wasm} override={ov} -> {:?}", ver.map(|v| format!("@{v}")).unwrap_or_default(), want)); }
            let _ = ki;
        } } } } }
    }
    // ---- several keys in ONE call: each key is looked up on its own - a missing package is skipped (or reported) without
    //      affecting the keys after it.  Every present / missing pattern of three keys, in both modes.
    let mk = [("a:b", None), ("x:y", Some("1.2.3")), ("p:q:r", None)];
    for mask in 0u32..8 { for err_unknown in [false, true] {
        combos += 1;
        let deps = root.join(format!("multi{mask}{err_unknown}")).join("deps");
        let versions: Vec<Option<semver::Version>> = mk.iter().map(|(_, v)| v.map(|v| semver::Version::parse(v).unwrap())).collect();
        let mut ks: IndexMap<BorrowedPackageKey, SourceSpan> = IndexMap::new();
        for (i, (name, ver)) in mk.iter().enumerate() {
            let mut base = deps.clone();
            for seg in name.split(':') { base.push(seg); }
            if let Some(v) = ver { base.push(v); }
            fs::create_dir_all(base.parent().unwrap()).unwrap();
            if mask & (1 << i) != 0 { let mut f = base.into_os_string(); f.push(".wasm"); fs::write(PathBuf::from(f), wat::parse_str(&format!("(component (import \"key{i}\" (func)))")).unwrap()).unwrap(); }
            ks.insert(BorrowedPackageKey::from_name_and_version(name, versions[i].as_ref()), SourceSpan::new(i.into(), 1));
        }
        let resolver = FileSystemPackageResolver::new(&deps, HashMap::new(), err_unknown);
        let got = resolver.resolve(&ks);
        let first_missing = (0..3).find(|i| mask & (1 << i) == 0);
        let describe = format!("keys {:?} present {:?}, unknown-is-error {err_unknown}", mk.iter().map(|(n, v)| format!("{n}{}", v.map(|v| format!("@{v}")).unwrap_or_default())).collect::<Vec<_>>(), (0..3).map(|i| mask & (1 << i) != 0).collect::<Vec<_>>());
        match (got, err_unknown && first_missing.is_some()) {
            // which of several missing packages is reported is not constrained; it must be a missing one
            (Err(Error::UnknownPackage { span, .. }), true) => { if span.offset() > 2 || mask & (1 << span.offset()) != 0 { println!("C18-BOUNDED VIOLATION: {describe}: the unknown package reported is key #{}, which is present", span.offset()); std::process::exit(1); } }
            (Ok(m), false) => {
                for i in 0..3 {
                    let key = ks.get_index(i).unwrap().0;
                    let want = mask & (1 << i) != 0;
                    let have = m.get(key).map(|b| String::from_utf8_lossy(b).contains(&format!("key{i}")));
                    if have != if want { Some(true) } else { None } { println!("C18-BOUNDED VIOLATION: {describe}: key #{i} {} in the result", match have { None => "is missing", Some(false) => "has another key's bytes", Some(true) => "is present although its file does not exist" }); std::process::exit(1); }
                }
                if mask != 0 && mask != 7 { nontrivial += 1; }
            }
            (other, _) => { println!("C18-BOUNDED VIOLATION: {describe}: the resolver returned {:?}", other.map(|m| m.len()).map_err(|e| e.to_string())); std::process::exit(1); }
        }
    } }
    let _ = fs::remove_dir_all(&root);
    println!("C18-FS ok {{\"bounded\": true, \"exhaustive\": true, \"evaluations\": {combos}, \"distinct_nontrivial\": {nontrivial}, \"samples\": {:?}}}", samples);
}
