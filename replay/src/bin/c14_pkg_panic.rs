//! Replay for C14: a byte string (a one-bit mutation of a valid component that imports a nested component type and a core
//! module type) on which wac_types::Package::from_bytes panics instead of returning an error.  Exit 1 = panic observed.
use wac_types::{Package, Types};
fn main() {
    let bytes: Vec<u8> = vec![0, 97, 115, 109, 13, 0, 1, 0, 7, 34, 1, 65, 4, 1, 64, 0, 1, 0, 4, 0, 1, 105, 1, 0, 1, 66, 2, 1, 64, 0, 1, 0, 4, 0, 1, 103, 1, 0, 4, 0, 1, 101, 5, 1, 10, 6, 1, 0, 1, 119, 4, 0, 3, 23, 1, 80, 4, 1, 96, 0, 0, 0, 1, 97, 1, 98, 0, 0, 1, 96, 0, 0, 3, 1, 99, 32, 1, 10, 9, 1, 0, 3, 109, 111, 100, 0, 17, 0];
    let r = std::panic::catch_unwind(|| { let mut t = Types::default(); Package::from_bytes("x:y", None, bytes.clone(), &mut t).map(|_| ()) });
    match r {
        Ok(Ok(())) => println!("decoded"),
        Ok(Err(e)) => println!("rejected with an error (fine): {e:#}"),
        Err(_) => { println!("C14-REPLAY: Package::from_bytes PANICKED on a {}-byte string", 94); std::process::exit(1); }
    }
}
