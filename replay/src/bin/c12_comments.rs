//! BOUNDED stand-in for helpers::block_comment_length (assumed in unit U6: `.copied().peekable()` are outside Verus's
//! dialect): every string over {'/', '*', ' ', 'é', 'a'} up to a length bound is lexed by the REAL lexer after a
//! leading "/*", and the position/kind of the first item the lexer yields is compared with a direct transcription of
//! the nested-comment rule (a comment closes where the nesting depth returns to zero; otherwise it is unterminated).
//! Exit 0 = agreement everywhere, 1 = a disagreeing input is printed.  usage: c12_comments [max_len]
use wac_parser::lexer::{Error, Lexer};

/// offset of the first non-comment, non-space byte, or Err(()) when a comment is unterminated
fn mirror(src: &str) -> Result<usize, ()> {
    let b = src.as_bytes();
    let mut i = 0;
    loop {
        while i < b.len() && (b[i] == b' ') { i += 1; }
        if i + 1 < b.len() && b[i] == b'/' && b[i + 1] == b'*' {
            let mut depth = 1; i += 2;
            while depth > 0 {
                if i >= b.len() { return Err(()); }
                if i + 1 < b.len() && b[i] == b'/' && b[i + 1] == b'*' { depth += 1; i += 2; }
                else if i + 1 < b.len() && b[i] == b'*' && b[i + 1] == b'/' { depth -= 1; i += 2; }
                else { i += 1; }
            }
        } else if i + 1 < b.len() && b[i] == b'/' && b[i + 1] == b'/' {
            // line comment: to the end of the line (no newline in this alphabet: to the end of the input)
            while i < b.len() && b[i] != b'\n' { i += 1; }
        } else { return Ok(i); }
    }
}

fn main() {
    let max_len: usize = std::env::args().nth(1).and_then(|s| s.parse().ok()).unwrap_or(7);
    let alphabet = ["/", "*", " ", "é", "a"];
    let mut inputs = 0u64; let mut unterminated = 0u64; let mut samples = vec![];
    let mut stack: Vec<String> = vec![String::new()];
    while let Some(s) = stack.pop() {
        let src = format!("/*{s}");
        inputs += 1;
        let r = std::panic::catch_unwind(|| {
            let mut lx = Lexer::new(&src).expect("no invalid code points");
            lx.next().map(|(tok, span)| (tok.err(), span.offset(), span.len()))
        });
        let got = match r { Ok(g) => g, Err(_) => { println!("C12-BOUNDED VIOLATION: the lexer panicked on {src:?}"); std::process::exit(1); } };
        match (mirror(&src), got) {
            (Err(()), Some((Some(Error::UnterminatedComment), off, len))) => {
                unterminated += 1;
                if off + len > src.len() || !src.is_char_boundary(off) || !src.is_char_boundary(off + len) {
                    println!("C12-BOUNDED VIOLATION: unterminated-comment span {off}+{len} is outside {src:?} or off a char boundary"); std::process::exit(1);
                }
            }
            (Ok(at), g) => {
                let ok = match g {
                    None => at == src.len(),
                    Some((e, off, len)) => e != Some(Error::UnterminatedComment) && off == at && off + len <= src.len() && src.is_char_boundary(off + len),
                };
                if !ok { println!("C12-BOUNDED VIOLATION: on {src:?} the first item is {g:?} but the comment rule puts the first token at offset {at}"); std::process::exit(1); }
            }
            (Err(()), g) => { println!("C12-BOUNDED VIOLATION: {src:?} has an unterminated comment but the lexer yielded {g:?}"); std::process::exit(1); }
        }
        if samples.len() < 3 && s.len() == 5 { samples.push(src.clone()); }
        if s.chars().count() < max_len { for a in alphabet { stack.push(format!("{s}{a}")); } }
    }
    // ---- string literals: `"` + every string over {'"', 'a', 'é', '日', ' '} up to the length bound
    let mut strings = 0u64;
    let mut stack: Vec<String> = vec![String::new()];
    let salpha = ["\"", "a", "é", "日", " "];
    while let Some(s) = stack.pop() {
        let src = format!("\"{s}");
        strings += 1;
        let r = std::panic::catch_unwind(|| {
            let mut lx = Lexer::new(&src).expect("no invalid code points");
            lx.next().map(|(tok, span)| (tok.err(), span.offset(), span.len()))
        });
        let got = match r { Ok(g) => g, Err(_) => { println!("C12-BOUNDED VIOLATION: the lexer panicked on the string literal source {src:?}"); std::process::exit(1); } };
        // the literal closes at the first `"` after the opening quote; otherwise it is unterminated
        let expect = src[1..].find('"').map(|i| i + 2);
        let ok = match (expect, got) {
            (Some(end), Some((None, 0, len))) => len == end,
            (None, Some((Some(Error::UnterminatedString), off, len))) => off + len <= src.len() && src.is_char_boundary(off) && src.is_char_boundary(off + len),
            _ => false,
        };
        if !ok { println!("C12-BOUNDED VIOLATION: string literal source {src:?}: first item {got:?}, expected the literal to end at byte {expect:?} (None = unterminated)"); std::process::exit(1); }
        if s.chars().count() < max_len.min(6) { for a in salpha { stack.push(format!("{s}{a}")); } }
    }
    println!("C12-BOUNDED ok {{\"string_sources\": {strings}, \"bounded\": true, \"alphabet\": \"/ * space é a\", \"max_len\": {max_len}, \"inputs\": {inputs}, \"unterminated\": {unterminated}, \"samples\": {samples:?}}}");
}
