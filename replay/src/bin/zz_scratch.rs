use wac_graph::{CompositionGraph, EncodeOptions};
use wac_types::Package;
fn main() {
    let a = wat::parse_str(r#"(component
  (type (instance (export "r" (type (sub resource)))))
  (import "foo:bar/types@0.2.0" (instance $types (type 0)))
  (alias export $types "r" (type $r))
  (type (instance (alias outer 1 $r (type (;0;))) (export "r" (type (eq 0))) (type (own 1)) (type (func (param "x" 2))) (export "do-something" (func (type 3)))))
  (import "foo:bar/api" (instance (type 2))))"#).unwrap();
    let b = wat::parse_str(r#"(component
  (type (instance (export "r" (type (sub resource))) (export "s" (type (sub resource)))))
  (import "foo:bar/types@0.2.1" (instance (type 0))))"#).unwrap();
    for order in [0, 1] {
        let mut g = CompositionGraph::new();
        let pa = Package::from_bytes("test:a", None, a.clone(), g.types_mut()).unwrap();
        let pb = Package::from_bytes("test:b", None, b.clone(), g.types_mut()).unwrap();
        let pa = g.register_package(pa).unwrap();
        let pb = g.register_package(pb).unwrap();
        if order == 0 { g.instantiate(pa); g.instantiate(pb); } else { g.instantiate(pb); g.instantiate(pa); }
        match g.encode(EncodeOptions { define_components: true, validate: true, processor: None }) { Ok(_) => println!("order {order}: ok"), Err(e) => println!("order {order}: ERR {e:#}") }
        let bytes = g.encode(EncodeOptions { define_components: false, validate: false, processor: None }).unwrap();
        let txt = wasmprinter::print_bytes(&bytes).unwrap();
        for l in txt.lines().filter(|l| l.starts_with("  (import")) { println!("   {l}"); }
    }
}
