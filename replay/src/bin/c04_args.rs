//! BOUNDED stand-in for AstResolver::new_expr / spread_instantiation_arg (outside Verus's dialect: `.enumerate()`,
//! `continue` in for-loops, closures over `&mut`): the argument table of a `new` expression, compared with a reference
//! evaluator written from LANGUAGE.md ("Instantiation arguments"):
//!   * inferred and named arguments bind first, in order; the same argument name twice is an error;
//!   * spread arguments apply AFTER them, IN ORDER, each only to arguments that are still unspecified and unsatisfied
//!     and for which the spread instance has an export of that name; a spread that supplies nothing is an error;
//!   * `...` must be last; with it the remaining arguments become implicit imports, without it a missing argument is an
//!     error.
//! Universe: socket `t:p` importing a, b, c (instances); two exporter packages whose instances export subsets E1, E2 of
//! {a, b, c}; argument lists of length <= MAXLEN over { a: v, "a": v, b: v, c (inferred), c: v, ...s1, ...s2 } with repetition
//! (the same argument may be given under two spellings: still a duplicate), with
//! and without a trailing `...`, and `...` in a non-final position.  The REAL parser + resolver run on every document;
//! on success the bound source of every argument is read back from the composition graph.
//! Exit 0 = agreement on everything enumerated, 1 = a disagreeing document is printed.  usage: c04_args [maxlen]
use indexmap::IndexMap;
use std::collections::BTreeMap;
use wac_parser::{resolution::Error, Document};
use wac_types::BorrowedPackageKey;

// two of the three imports are interface paths: `a: v` / `c` name them by their last segment (LANGUAGE.md rules 2, 3),
// `"foo:dep/a": v` by the full path - two spellings of ONE argument
const IMPORTS: [&str; 3] = ["foo:dep/a", "b", "foo:dep/c"];

fn socket() -> Vec<u8> {
    let mut s = String::from("(component\n");
    for n in IMPORTS { s.push_str(&format!("  (import \"{n}\" (instance (export \"f\" (func))))\n")); }
    s.push(')');
    wat::parse_str(&s).unwrap()
}
fn plug() -> Vec<u8> {
    wat::parse_str(r#"(component
        (core module $m (func (export "f")))
        (core instance $i (instantiate $m))
        (func $f (canon lift (core func $i "f")))
        (export "f" (func $f)))"#).unwrap()
}
fn exporter(mask: u32) -> Vec<u8> {
    let mut s = String::from(r#"(component
        (core module $m (func (export "f")))
        (core instance $i (instantiate $m))
        (func $f (canon lift (core func $i "f")))
        (instance $inst (export "f" (func $f)))
        (export "z" (instance $inst))
"#);
    for (i, n) in IMPORTS.iter().enumerate() { if mask & (1 << i) != 0 { s.push_str(&format!("  (export \"{n}\" (instance $inst))\n")); } }
    s.push(')');
    wat::parse_str(&s).unwrap()
}

#[derive(Clone, Copy, PartialEq, Debug)]
enum Arg { NamedA, NamedB, InferredC, Spread1, Spread2, Fill, StrA, NamedC }   // StrA / NamedC: the same argument, spelled differently

fn text(a: Arg) -> &'static str {
    match a { Arg::NamedA => "a: v", Arg::NamedB => "b: v", Arg::InferredC => "c", Arg::Spread1 => "...s1", Arg::Spread2 => "...s2", Arg::Fill => "...", Arg::StrA => "\"foo:dep/a\": v", Arg::NamedC => "\"foo:dep/c\": v" }
}

/// the composition LANGUAGE.md defines: argument name -> source label, or the class of diagnostic
fn reference(args: &[Arg], e: [u32; 2]) -> Result<BTreeMap<&'static str, String>, &'static str> {
    let mut bound: BTreeMap<&'static str, String> = BTreeMap::new();
    let mut fill = false;
    for (i, a) in args.iter().enumerate() {
        let (name, src) = match a {
            Arg::NamedA | Arg::StrA => ("foo:dep/a", "v"), Arg::NamedB => ("b", "v"), Arg::InferredC => ("foo:dep/c", "c"), Arg::NamedC => ("foo:dep/c", "v"),
            Arg::Fill => { if i != args.len() - 1 { return Err("FillArgumentNotLast"); } fill = true; continue; }
            _ => continue,
        };
        if bound.insert(name, src.to_string()).is_some() { return Err("DuplicateInstantiationArg"); }
    }
    for a in args {
        let (k, label) = match a { Arg::Spread1 => (0, "s1"), Arg::Spread2 => (1, "s2"), _ => continue };
        let mut any = false;
        for (i, n) in IMPORTS.iter().enumerate() {
            if !bound.contains_key(n) && e[k] & (1 << i) != 0 { bound.insert(n, format!("{label}.{n}")); any = true; }
        }
        if !any { return Err("SpreadInstantiationNoMatch"); }
    }
    if !fill && IMPORTS.iter().any(|n| !bound.contains_key(n)) { return Err("MissingInstantiationArg"); }
    Ok(bound)
}

fn main() {
    let maxlen: usize = std::env::args().nth(1).and_then(|s| s.parse().ok()).unwrap_or(3);
    let alphabet = [Arg::NamedA, Arg::NamedB, Arg::InferredC, Arg::Spread1, Arg::Spread2, Arg::Fill, Arg::StrA, Arg::NamedC];
    let mut lists: Vec<Vec<Arg>> = vec![vec![]];
    let mut frontier: Vec<Vec<Arg>> = vec![vec![]];
    for _ in 0..maxlen {
        let mut next = vec![];
        for l in &frontier { for a in alphabet { let mut m = l.clone(); m.push(a); next.push(m); } }
        lists.extend(next.iter().cloned());
        frontier = next;
    }
    // lists with more than one `...` or with `...` early are kept: they must be rejected as FillArgumentNotLast
    let sock = socket(); let plugb = plug();
    let exporters: Vec<Vec<u8>> = (0..8).map(exporter).collect();
    let (mut docs, mut ok, mut errs) = (0u64, 0u64, BTreeMap::<&str, u64>::new());
    for e1 in [0u32, 1, 3, 5, 7] { for e2 in [0u32, 1, 2, 6, 7] {
        for l in &lists {
            let uses1 = l.contains(&Arg::Spread1); let uses2 = l.contains(&Arg::Spread2);
            // exporter sets only matter when the spread is used
            if !uses1 && e1 != 0 { continue; }
            if !uses2 && e2 != 0 { continue; }
            let argtext = l.iter().map(|a| text(*a)).collect::<Vec<_>>().join(", ");
            let src = format!("package test:doc;\nlet v = new x:y {{}};\nlet c = new x:y {{}};\nlet s1 = new x:e1 {{}};\nlet s2 = new x:e2 {{}};\nlet s = new t:p {{ {argtext} }};\nexport s as out;\n");
            let doc = match Document::parse(&src) { Ok(d) => d, Err(e) => { println!("C04-ARGS generator produced an unparsable document: {e}\n{src}"); std::process::exit(2); } };
            let mut packages: IndexMap<BorrowedPackageKey, Vec<u8>> = IndexMap::new();
            packages.insert(BorrowedPackageKey::from_name_and_version("t:p", None), sock.clone());
            packages.insert(BorrowedPackageKey::from_name_and_version("x:y", None), plugb.clone());
            packages.insert(BorrowedPackageKey::from_name_and_version("x:e1", None), exporters[e1 as usize].clone());
            packages.insert(BorrowedPackageKey::from_name_and_version("x:e2", None), exporters[e2 as usize].clone());
            docs += 1;
            let want = reference(l, [e1, e2]);
            let got: Result<BTreeMap<&str, String>, String> = match doc.resolve(packages) {
                Ok(res) => {
                    let g = res.graph();
                    let inst = g.node_ids().find(|n| g[*n].name() == Some("s")).expect("instantiation node");
                    let mut m = BTreeMap::new();
                    for (name, srcn) in g.get_instantiation_arguments(inst) {
                        let label = match g.get_alias_source(srcn) {
                            Some((owner, export)) => format!("{}.{}", g[owner].name().unwrap_or("?"), export),
                            None => g[srcn].name().unwrap_or("?").to_string(),
                        };
                        let key = IMPORTS.iter().find(|n| **n == name).copied().unwrap_or("?");
                        m.insert(key, label);
                    }
                    Ok(m)
                }
                Err(Error::FillArgumentNotLast { .. }) => Err("FillArgumentNotLast".into()),
                Err(Error::DuplicateInstantiationArg { .. }) => Err("DuplicateInstantiationArg".into()),
                Err(Error::SpreadInstantiationNoMatch { .. }) => Err("SpreadInstantiationNoMatch".into()),
                Err(Error::MissingInstantiationArg { .. }) => Err("MissingInstantiationArg".into()),
                Err(e) => Err(format!("other: {e}")),
            };
            let same = match (&want, &got) {
                (Ok(a), Ok(b)) => a == b,
                // a document may be ill-formed in more than one way (e.g. a duplicate AND an early `...`): the
                // reference reports the first in its own order; any of the ill-formedness classes present is accepted
                (Err(a), Err(b)) => a == b || faults(l, [e1, e2]).contains(&b.as_str()),
                _ => false,
            };
            if !same {
                println!("C04-BOUNDED VIOLATION: `new t:p {{ {argtext} }}` with s1 exporting {:?}, s2 exporting {:?}: resolution gives {:?}, LANGUAGE.md gives {:?}; document:\n{src}",
                    names(e1), names(e2), got, want);
                std::process::exit(1);
            }
            match want { Ok(_) => ok += 1, Err(k) => *errs.entry(k).or_insert(0) += 1 }
        }
    } }
    println!("C04-ARGS ok {{\"bounded\": true, \"max_arguments\": {maxlen}, \"documents\": {docs}, \"well_formed\": {ok}, \"ill_formed\": {:?}}}", errs);
}

fn names(mask: u32) -> Vec<&'static str> { IMPORTS.iter().enumerate().filter(|(i, _)| mask & (1 << i) != 0).map(|(_, n)| *n).collect() }

/// every ill-formedness class present in the argument list (independent of the order in which they are detected)
fn faults(args: &[Arg], e: [u32; 2]) -> Vec<&'static str> {
    let mut f = vec![];
    if args.iter().enumerate().any(|(i, a)| *a == Arg::Fill && i != args.len() - 1) { f.push("FillArgumentNotLast"); }
    // the same argument NAME twice, however it is spelled (identifier, string, inferred)
    for group in [&[Arg::NamedA, Arg::StrA][..], &[Arg::NamedB][..], &[Arg::InferredC, Arg::NamedC][..]] { if args.iter().filter(|x| group.contains(x)).count() > 1 { f.push("DuplicateInstantiationArg"); } }
    // a spread that supplies nothing once the earlier arguments are taken into account
    let stripped: Vec<Arg> = args.iter().copied().filter(|a| *a != Arg::Fill).collect();
    let mut dedup: Vec<Arg> = vec![];
    let same_name = |x: Arg, y: Arg| x == y || matches!((x, y), (Arg::NamedA, Arg::StrA) | (Arg::StrA, Arg::NamedA) | (Arg::InferredC, Arg::NamedC) | (Arg::NamedC, Arg::InferredC));
    for a in &stripped { if matches!(a, Arg::Spread1 | Arg::Spread2) || !dedup.iter().any(|d| same_name(*d, *a)) { dedup.push(*a); } }
    let mut with_fill = dedup.clone(); with_fill.push(Arg::Fill);
    match reference(&with_fill, e) { Err("SpreadInstantiationNoMatch") => f.push("SpreadInstantiationNoMatch"), _ => {} }
    if !args.contains(&Arg::Fill) { if let Err("MissingInstantiationArg") = reference(&dedup, e) { f.push("MissingInstantiationArg"); } }
    f
}
