//! BOUNDED check of the main clause of C12 ("a source text is accepted exactly when it is derivable from the WAC grammar
//! ... texts one token away from the grammar are rejected with an error located inside the source").  The parser is
//! logos-generated lexing plus macro-generated lookahead code: outside Verus's dialect (unit U6 proves the lexical
//! screening and the comment / string helpers).  Here an INDEPENDENT recogniser written from the EBNF of LANGUAGE.md
//! (`Ref`, below) is compared with the REAL parser on token sequences: grammar-generated documents (seeded) and ALL their
//! single-token deletions, duplications, substitutions (from a pool of tokens) and adjacent swaps, rendered with
//! randomised layout (spaces, newlines, line and nested block comments).
//! Where LANGUAGE.md's EBNF and the parser are known to differ, the recogniser has a named switch; a disagreement that
//! disappears when exactly such switches are flipped is printed as `FINDING <switch>` (recorded in known_findings.json);
//! any other disagreement is a C12-BOUNDED VIOLATION.  A rejected text must carry an error label inside the source.
//! Exit 0 = agreement, 3 = only FINDING lines, 1 = violation.     usage: c12_grammar [documents] [seed]
use miette::Diagnostic;
use wac_parser::Document;

const KEYWORDS: [&str; 41] = ["import", "with", "type", "tuple", "list", "option", "result", "borrow", "resource", "variant", "record", "flags", "enum", "func", "static", "constructor",
    "u8", "s8", "u16", "s16", "u32", "s32", "u64", "s64", "f32", "f64", "char", "bool", "string", "interface", "world", "export", "new", "let", "use", "include", "as", "package", "targets", "_pad1", "_pad2"];
const PRIMS: [&str; 13] = ["u8", "s8", "u16", "s16", "u32", "s32", "u64", "s64", "f32", "f64", "char", "bool", "string"];

#[derive(Clone, Copy, PartialEq, Debug)]
enum K { Kw, Id, Str, PkgName, PkgPath, Punct, Junk }

fn is_word(s: &str, upper: bool) -> bool {
    let b = s.as_bytes();
    if b.is_empty() { return false; }
    (b[0].is_ascii_lowercase() && b.iter().all(|c| c.is_ascii_lowercase() || c.is_ascii_digit()))
        || (upper && b[0].is_ascii_uppercase() && b.iter().all(|c| c.is_ascii_uppercase() || c.is_ascii_digit()))
}
fn is_id(s: &str, upper: bool) -> bool { let t = s.strip_prefix('%').unwrap_or(s); !t.is_empty() && t.split('-').all(|w| is_word(w, upper)) }
fn is_pkg_name_base(s: &str, upper: bool) -> bool { let parts: Vec<&str> = s.split(':').collect(); parts.len() >= 2 && parts.iter().all(|p| is_id(p, upper)) }
fn split_version(s: &str) -> (&str, Option<&str>) { match s.find('@') { Some(i) => (&s[..i], Some(&s[i + 1..])), None => (s, None) } }
fn classify(t: &str, upper: bool) -> K {
    if t.starts_with('"') { return if t.len() >= 2 && t.ends_with('"') && !t[1..t.len() - 1].contains('"') { K::Str } else { K::Junk }; }
    if KEYWORDS.contains(&t) { return K::Kw; }
    if is_id(t, upper) { return K::Id; }
    if [";", "{", "}", ":", "=", "(", ")", "->", "<", ">", "_", "[", "]", ".", "...", ",", "/", "@"].contains(&t) { return K::Punct; }
    let (base, ver) = split_version(t);
    let ver_ok = ver.map(|v| semver::Version::parse(v).is_ok()).unwrap_or(true);
    if ver_ok {
        if is_pkg_name_base(base, upper) { return K::PkgName; }
        if let Some(i) = base.find('/') { let (n, p) = (&base[..i], &base[i + 1..]); if is_pkg_name_base(n, upper) && !p.is_empty() && p.split('/').all(|x| is_id(x, upper)) { return K::PkgPath; } }
    }
    K::Junk
}

/// switches for the places where LANGUAGE.md's EBNF and the parser are known to differ (all false = the EBNF as written)
#[derive(Clone, Copy, Default, PartialEq, Debug)]
struct Sw { empty_new_args: bool, fill_anywhere: bool, no_named_results: bool, empty_bodies_ok: bool, upper_words: bool, borrow_id: bool, empty_use: bool, empty_with: bool, result_underscores: bool }

struct Ref<'a> { t: &'a [String], sw: Sw }
type P = Option<usize>;
impl<'a> Ref<'a> {
    fn tok(&self, i: usize) -> Option<&str> { self.t.get(i).map(|s| s.as_str()) }
    fn lit(&self, i: usize, s: &str) -> P { if self.tok(i) == Some(s) { Some(i + 1) } else { None } }
    fn kind(&self, i: usize, k: K) -> P { match self.tok(i) { Some(t) if classify(t, self.sw.upper_words) == k => Some(i + 1), _ => None } }
    fn id(&self, i: usize) -> P { self.kind(i, K::Id) }
    fn string(&self, i: usize) -> P { self.kind(i, K::Str) }
    fn pkg_path(&self, i: usize) -> P { self.kind(i, K::PkgPath) }
    fn pkg_name(&self, i: usize) -> P { self.kind(i, K::PkgName) }
    // X (',' X)* ','?   - at least one item
    fn list1(&self, i: usize, item: &dyn Fn(usize) -> P) -> P {
        let mut i = item(i)?;
        loop {
            match self.lit(i, ",") { None => return Some(i), Some(j) => match item(j) { Some(k) => i = k, None => return Some(j) } }
        }
    }
    fn document(&self) -> bool {
        let Some(mut i) = self.package_decl(0) else { return false };
        while i < self.t.len() { match self.statement(i) { Some(j) => i = j, None => return false } }
        true
    }
    fn package_decl(&self, i: usize) -> P {
        let i = self.lit(i, "package")?; let mut i = self.pkg_name(i)?;
        if let Some(j) = self.lit(i, "targets") { i = self.pkg_path(j)?; }
        self.lit(i, ";")
    }
    fn statement(&self, i: usize) -> P {
        self.import_statement(i).or_else(|| self.type_statement(i)).or_else(|| self.let_statement(i)).or_else(|| self.export_statement(i))
    }
    fn import_statement(&self, i: usize) -> P {
        let i = self.lit(i, "import")?; let mut i = self.id(i)?;
        if let Some(j) = self.lit(i, "as") { i = self.id(j).or_else(|| self.string(j))?; }
        let i = self.lit(i, ":")?;
        let i = self.pkg_path(i).or_else(|| self.func_type(i)).or_else(|| self.inline_interface(i)).or_else(|| self.id(i))?;
        self.lit(i, ";")
    }
    fn type_statement(&self, i: usize) -> P { self.interface_decl(i).or_else(|| self.world_decl(i)).or_else(|| self.type_decl(i)) }
    fn interface_decl(&self, i: usize) -> P {
        let i = self.lit(i, "interface")?; let i = self.id(i)?; let mut i = self.lit(i, "{")?;
        while let Some(j) = self.interface_item(i) { i = j; }
        self.lit(i, "}")
    }
    fn inline_interface(&self, i: usize) -> P {
        let i = self.lit(i, "interface")?; let mut i = self.lit(i, "{")?;
        while let Some(j) = self.interface_item(i) { i = j; }
        self.lit(i, "}")
    }
    fn interface_item(&self, i: usize) -> P { self.use_type(i).or_else(|| self.item_type_decl(i)).or_else(|| self.interface_export(i)) }
    fn use_type(&self, i: usize) -> P {
        let i = self.lit(i, "use")?; let i = self.pkg_path(i).or_else(|| self.id(i))?; let i = self.lit(i, ".")?; let i = self.lit(i, "{")?;
        let item = |k: usize| { let k = self.id(k)?; match self.lit(k, "as") { Some(m) => self.id(m), None => Some(k) } };
        let i = match self.list1(i, &item) { Some(j) => j, None => if self.sw.empty_use { i } else { return None } };
        let i = self.lit(i, "}")?; self.lit(i, ";")
    }
    fn interface_export(&self, i: usize) -> P { let i = self.id(i)?; let i = self.lit(i, ":")?; let i = self.func_type(i).or_else(|| self.id(i))?; self.lit(i, ";") }
    fn world_decl(&self, i: usize) -> P {
        let i = self.lit(i, "world")?; let i = self.id(i)?; let mut i = self.lit(i, "{")?;
        while let Some(j) = self.world_item(i) { i = j; }
        self.lit(i, "}")
    }
    fn world_item(&self, i: usize) -> P {
        self.use_type(i).or_else(|| self.item_type_decl(i))
            .or_else(|| { let i = self.lit(i, "import").or_else(|| self.lit(i, "export"))?; let i = self.world_item_path(i)?; self.lit(i, ";") })
            .or_else(|| self.world_include(i))
    }
    fn world_item_path(&self, i: usize) -> P {
        (|| { let i = self.id(i)?; let i = self.lit(i, ":")?; self.func_type(i).or_else(|| self.inline_interface(i)).or_else(|| self.id(i)) })()
            .or_else(|| self.pkg_path(i)).or_else(|| self.id(i))
    }
    fn world_include(&self, i: usize) -> P {
        let i = self.lit(i, "include")?; let mut i = self.pkg_path(i).or_else(|| self.id(i))?;
        if let Some(j) = self.lit(i, "with") {
            let j = self.lit(j, "{")?;
            let item = |k: usize| { let k = self.id(k)?; let k = self.lit(k, "as")?; self.id(k) };
            let j = match self.list1(j, &item) { Some(m) => m, None => if self.sw.empty_with { j } else { return None } };
            i = self.lit(j, "}")?;
        }
        self.lit(i, ";")
    }
    fn item_type_decl(&self, i: usize) -> P { self.resource_decl(i).or_else(|| self.type_decl(i)) }
    fn resource_decl(&self, i: usize) -> P {
        let i = self.lit(i, "resource")?; let i = self.id(i)?;
        if let Some(j) = self.lit(i, ";") { return Some(j); }
        let mut i = self.lit(i, "{")?;
        loop {
            let c = (|| { let k = self.lit(i, "constructor")?; let k = self.param_list(k)?; self.lit(k, ";") })();
            let m = c.or_else(|| { let k = self.id(i)?; let k = self.lit(k, ":")?; let k = self.lit(k, "static").unwrap_or(k); let k = self.func_type(k)?; self.lit(k, ";") });
            match m { Some(j) => i = j, None => break }
        }
        self.lit(i, "}")
    }
    fn type_decl(&self, i: usize) -> P {
        let body = |i: usize, item: &dyn Fn(usize) -> P| -> P {
            let i = self.id(i)?; let i = self.lit(i, "{")?;
            let i = match self.list1(i, item) { Some(j) => j, None => if self.sw.empty_bodies_ok { i } else { return None } };
            self.lit(i, "}")
        };
        if let Some(j) = self.lit(i, "variant") { return body(j, &|k| { let k = self.id(k)?; match self.lit(k, "(") { Some(m) => { let m = self.ty(m)?; self.lit(m, ")") } None => Some(k) } }); }
        if let Some(j) = self.lit(i, "record") { return body(j, &|k| self.named_type(k)); }
        if let Some(j) = self.lit(i, "flags") { return body(j, &|k| self.id(k)); }
        if let Some(j) = self.lit(i, "enum") { return body(j, &|k| self.id(k)); }
        let i = self.lit(i, "type")?; let i = self.id(i)?; let i = self.lit(i, "=")?; let i = self.func_type(i).or_else(|| self.ty(i))?; self.lit(i, ";")
    }
    fn named_type(&self, i: usize) -> P { let i = self.id(i)?; let i = self.lit(i, ":")?; self.ty(i) }
    fn param_list(&self, i: usize) -> P { let i = self.lit(i, "(")?; let i = self.list1(i, &|k| self.named_type(k)).unwrap_or(i); self.lit(i, ")") }
    fn func_type(&self, i: usize) -> P {
        let i = self.lit(i, "func")?; let i = self.param_list(i)?;
        match self.lit(i, "->") {
            None => Some(i),
            Some(j) => self.ty(j).or_else(|| { if self.sw.no_named_results { return None; } let k = self.lit(j, "(")?; let k = self.list1(k, &|m| self.named_type(m))?; self.lit(k, ")") }),
        }
    }
    fn ty(&self, i: usize) -> P {
        let t = self.tok(i)?;
        if PRIMS.contains(&t) { return Some(i + 1); }
        match t {
            "tuple" => { let i = self.lit(i + 1, "<")?; let i = self.list1(i, &|k| self.ty(k))?; self.lit(i, ">") }
            "borrow" if self.sw.borrow_id => { let i = self.lit(i + 1, "<")?; let i = self.id(i)?; self.lit(i, ">") }
            "list" | "option" | "borrow" => { let i = self.lit(i + 1, "<")?; let i = self.ty(i)?; self.lit(i, ">") }
            "result" => {
                match self.lit(i + 1, "<") {
                    None => Some(i + 1),
                    Some(j) if self.sw.result_underscores => {
                        let k = self.lit(j, "_").or_else(|| self.ty(j))?;
                        match self.lit(k, ",") { Some(m) => { let m = self.lit(m, "_").or_else(|| self.ty(m))?; self.lit(m, ">") } None => self.lit(k, ">") }
                    }
                    Some(j) => {
                        if let Some(k) = self.lit(j, "_") { let k = self.lit(k, ",")?; let k = self.ty(k)?; return self.lit(k, ">"); }
                        let k = self.ty(j)?;
                        match self.lit(k, ",") { Some(m) => { let m = self.ty(m)?; self.lit(m, ">") } None => self.lit(k, ">") }
                    }
                }
            }
            _ => self.id(i),
        }
    }
    fn let_statement(&self, i: usize) -> P { let i = self.lit(i, "let")?; let i = self.id(i)?; let i = self.lit(i, "=")?; let i = self.expr(i)?; self.lit(i, ";") }
    fn expr(&self, i: usize) -> P {
        let mut i = self.new_expr(i).or_else(|| { let k = self.lit(i, "(")?; let k = self.expr(k)?; self.lit(k, ")") }).or_else(|| self.id(i))?;
        loop {
            if let Some(j) = self.lit(i, ".") { i = self.id(j)?; continue; }
            if let Some(j) = self.lit(i, "[") { let j = self.string(j)?; i = self.lit(j, "]")?; continue; }
            return Some(i);
        }
    }
    fn inst_arg(&self, i: usize) -> P {
        (|| { let k = self.id(i).or_else(|| self.string(i))?; let k = self.lit(k, ":")?; self.expr(k) })()
            .or_else(|| { let k = self.lit(i, "...")?; self.id(k) })
            .or_else(|| self.id(i))
            .or_else(|| if self.sw.fill_anywhere { self.lit(i, "...") } else { None })
    }
    fn new_expr(&self, i: usize) -> P {
        let i = self.lit(i, "new")?; let i = self.pkg_name(i)?; let i = self.lit(i, "{")?;
        // instantiation-args ::= instantiation-arg (',' instantiation-arg)* (',' '...'?)?
        let i = match self.inst_arg(i) {
            None => if self.sw.empty_new_args { i } else { return None },
            Some(mut j) => {
                loop {
                    match self.lit(j, ",") {
                        None => break,
                        Some(k) => match self.inst_arg(k) { Some(m) => j = m, None => { j = self.lit(k, "...").unwrap_or(k); break; } },
                    }
                }
                j
            }
        };
        self.lit(i, "}")
    }
    fn export_statement(&self, i: usize) -> P {
        let i = self.lit(i, "export")?; let mut i = self.expr(i)?;
        if let Some(j) = self.lit(i, "...") { i = j; } else if let Some(j) = self.lit(i, "as") { i = self.id(j).or_else(|| self.string(j))?; }
        self.lit(i, ";")
    }
}

struct Rng(u64);
impl Rng {
    fn next(&mut self) -> u64 { self.0 = self.0.wrapping_mul(6364136223846793005).wrapping_add(1442695040888963407); self.0 >> 33 }
    fn below(&mut self, n: usize) -> usize { (self.next() % n as u64) as usize }
    fn chance(&mut self, p: usize) -> bool { self.below(100) < p }
}
struct Gen { r: Rng, out: Vec<String> }
impl Gen {
    fn p(&mut self, s: &str) { self.out.push(s.to_string()); }
    fn id(&mut self) { let ids = ["a", "foo", "foo-bar", "x1", "%interface", "%use", "b2-c3"]; let i = self.r.below(ids.len()); self.p(ids[i]); }
    fn string(&mut self) { let ss = ["\"foo\"", "\"a:b/c@1.0.0\"", "\"with space\""]; let i = self.r.below(ss.len()); self.p(ss[i]); }
    fn pkg_name(&mut self) { let ns = ["a:b", "foo:bar@1.0.0", "x:y:z", "a:foo-bar@0.2.1-rc.1"]; let i = self.r.below(ns.len()); self.p(ns[i]); }
    fn pkg_path(&mut self) { let ns = ["a:b/c", "foo:bar/baz@1.0.0", "x:y/z/w", "a:b/foo-bar@0.2.1+b"]; let i = self.r.below(ns.len()); self.p(ns[i]); }
    fn list(&mut self, min: usize, max: usize, item: &mut dyn FnMut(&mut Gen)) {
        let n = min + self.r.below(max - min + 1);
        for i in 0..n { if i > 0 { self.p(","); } item(self); }
        if n > 0 && self.r.chance(30) { self.p(","); }
    }
    fn ty(&mut self, d: usize) {
        match if d == 0 { self.r.below(2) } else { self.r.below(8) } {
            0 => { let i = self.r.below(PRIMS.len()); self.p(PRIMS[i]); }
            1 => self.id(),
            2 => { self.p("tuple"); self.p("<"); self.list(1, 3, &mut |g| g.ty(d - 1)); self.p(">"); }
            3 => { self.p("list"); self.p("<"); self.ty(d - 1); self.p(">"); }
            4 => { self.p("option"); self.p("<"); self.ty(d - 1); self.p(">"); }
            5 => { self.p("result"); match self.r.below(4) { 0 => {}, 1 => { self.p("<"); self.ty(d - 1); self.p(">"); } 2 => { self.p("<"); self.p("_"); self.p(","); self.ty(d - 1); self.p(">"); } _ => { self.p("<"); self.ty(d - 1); self.p(","); self.ty(d - 1); self.p(">"); } } }
            6 => { self.p("borrow"); self.p("<"); self.id(); self.p(">"); }
            _ => { let i = self.r.below(PRIMS.len()); self.p(PRIMS[i]); }
        }
    }
    fn named_type(&mut self) { self.id(); self.p(":"); self.ty(2); }
    fn func_type(&mut self) {
        self.p("func"); self.p("("); self.list(0, 2, &mut |g| g.named_type()); self.p(")");
        match self.r.below(5) { 0 | 1 => {}, 2 | 3 => { self.p("->"); self.ty(2); } _ => { self.p("->"); self.p("("); self.list(1, 2, &mut |g| g.named_type()); self.p(")"); } }
    }
    fn type_decl(&mut self) {
        match self.r.below(5) {
            0 => { self.p("variant"); self.id(); self.p("{"); self.list(1, 3, &mut |g| { g.id(); if g.r.chance(50) { g.p("("); g.ty(1); g.p(")"); } }); self.p("}"); }
            1 => { self.p("record"); self.id(); self.p("{"); self.list(1, 3, &mut |g| g.named_type()); self.p("}"); }
            2 => { self.p("flags"); self.id(); self.p("{"); self.list(1, 3, &mut |g| g.id()); self.p("}"); }
            3 => { self.p("enum"); self.id(); self.p("{"); self.list(1, 3, &mut |g| g.id()); self.p("}"); }
            _ => { self.p("type"); self.id(); self.p("="); if self.r.chance(30) { self.func_type(); } else { self.ty(2); } self.p(";"); }
        }
    }
    fn resource(&mut self) {
        self.p("resource"); self.id();
        if self.r.chance(30) { self.p(";"); return; }
        self.p("{");
        for _ in 0..self.r.below(3) { if self.r.chance(40) { self.p("constructor"); self.p("("); self.list(0, 2, &mut |g| g.named_type()); self.p(")"); self.p(";"); } else { self.id(); self.p(":"); if self.r.chance(40) { self.p("static"); } self.func_type(); self.p(";"); } }
        self.p("}");
    }
    fn use_type(&mut self) { self.p("use"); if self.r.chance(50) { self.pkg_path(); } else { self.id(); } self.p("."); self.p("{"); self.list(1, 3, &mut |g| { g.id(); if g.r.chance(40) { g.p("as"); g.id(); } }); self.p("}"); self.p(";"); }
    fn interface_items(&mut self) {
        for _ in 0..self.r.below(4) { match self.r.below(5) { 0 => self.use_type(), 1 => self.type_decl(), 2 => self.resource(), 3 => { self.id(); self.p(":"); self.func_type(); self.p(";"); } _ => { self.id(); self.p(":"); self.id(); self.p(";"); } } }
    }
    fn world_items(&mut self) {
        for _ in 0..self.r.below(4) {
            match self.r.below(6) {
                0 => self.use_type(), 1 => self.type_decl(), 2 => self.resource(),
                3 | 4 => { if self.r.chance(50) { self.p("import"); } else { self.p("export"); } match self.r.below(3) { 0 => { self.id(); self.p(":"); match self.r.below(3) { 0 => self.func_type(), 1 => { self.p("interface"); self.p("{"); self.interface_items(); self.p("}"); } _ => self.id() } } 1 => self.pkg_path(), _ => self.id() } self.p(";"); }
                _ => { self.p("include"); if self.r.chance(50) { self.pkg_path(); } else { self.id(); } if self.r.chance(40) { self.p("with"); self.p("{"); self.list(1, 2, &mut |g| { g.id(); g.p("as"); g.id(); }); self.p("}"); } self.p(";"); }
            }
        }
    }
    fn expr(&mut self, d: usize) {
        match if d == 0 { 2 } else { self.r.below(4) } {
            0 | 1 => {
                self.p("new"); self.pkg_name(); self.p("{");
                let n = self.r.below(4);
                for i in 0..n {
                    if i > 0 { self.p(","); }
                    match self.r.below(5) { 0 => self.id(), 1 => { self.p("..."); self.id(); } 2 => { self.id(); self.p(":"); self.expr(d - 1); } 3 => { self.string(); self.p(":"); self.expr(d - 1); } _ => { if i + 1 == n && i > 0 { self.p("..."); } else { self.id(); } } }
                }
                if n > 0 && self.r.chance(40) { self.p(","); if self.r.chance(50) && self.out.last().map(|s| s != "...").unwrap_or(true) && self.out[self.out.len() - 2] != "..." { self.p("..."); } }
                self.p("}");
            }
            3 => { self.p("("); self.expr(d - 1); self.p(")"); }
            _ => self.id(),
        }
        for _ in 0..self.r.below(3) { if self.r.chance(50) { self.p("."); self.id(); } else { self.p("["); self.string(); self.p("]"); } }
    }
    fn statement(&mut self) {
        match self.r.below(8) {
            0 | 1 => { self.p("import"); self.id(); match self.r.below(3) { 0 => {}, 1 => { self.p("as"); self.id(); } _ => { self.p("as"); self.string(); } } self.p(":"); match self.r.below(4) { 0 => self.pkg_path(), 1 => self.func_type(), 2 => { self.p("interface"); self.p("{"); self.interface_items(); self.p("}"); } _ => self.id() } self.p(";"); }
            2 => { self.p("interface"); self.id(); self.p("{"); self.interface_items(); self.p("}"); }
            3 => { self.p("world"); self.id(); self.p("{"); self.world_items(); self.p("}"); }
            4 => self.type_decl(),
            5 | 6 => { self.p("let"); self.id(); self.p("="); self.expr(2); self.p(";"); }
            _ => { self.p("export"); self.expr(2); match self.r.below(4) { 0 => {}, 1 => self.p("..."), 2 => { self.p("as"); self.id(); } _ => { self.p("as"); self.string(); } } self.p(";"); }
        }
    }
    fn document(&mut self) -> Vec<String> {
        self.out.clear();
        self.p("package"); self.pkg_name(); if self.r.chance(30) { self.p("targets"); self.pkg_path(); } self.p(";");
        for _ in 0..1 + self.r.below(3) { self.statement(); }
        std::mem::take(&mut self.out)
    }
}

/// randomised layout; where it cannot change the tokenisation (a word followed by one of `; , { } ( ) < > = [ ] . :`, or one
/// of those - except `:` - followed by a word) the separator is sometimes EMPTY.  Returns the text and, per token, whether
/// it was glued to the next one.
fn render(toks: &[String], r: &mut Rng) -> (String, Vec<bool>) {
    let wordish = |t: &str| !t.is_empty() && t.chars().all(|c| c.is_ascii_alphanumeric() || c == '-' || c == '%' || c == '_') && !t.ends_with('-');
    let punct = |t: &str| [";", ",", "{", "}", "(", ")", "<", ">", "=", "[", "]", "."].contains(&t);
    let mut s = String::new();
    let mut glued = vec![false; toks.len()];
    for (i, t) in toks.iter().enumerate() {
        s.push_str(t);
        let next = toks.get(i + 1).map(|x| x.as_str()).unwrap_or("");
        let can_glue = (wordish(t) && (punct(next) || next == ":")) || (punct(t) && wordish(next));
        if can_glue && r.below(4) == 0 { glued[i] = true; continue; }
        s.push_str(match r.below(14) { 0 => "\n", 1 => "  ", 2 => " /* c */ ", 3 => " // l\n", 4 => "\t", 5 => " /* a /* n */ b */ ", _ => " " });
    }
    (s, glued)
}

const SWITCHES: [&str; 9] = ["empty-new-arguments", "fill-argument-anywhere", "named-results-rejected", "empty-type-bodies", "uppercase-words-in-identifiers", "borrow-of-an-identifier-only", "empty-use-items", "empty-include-with-items", "result-underscore-in-any-position"];
fn sw_from(mask: u32) -> Sw { Sw { empty_new_args: mask & 1 != 0, fill_anywhere: mask & 2 != 0, no_named_results: mask & 4 != 0, empty_bodies_ok: mask & 8 != 0, upper_words: mask & 16 != 0, borrow_id: mask & 32 != 0, empty_use: mask & 64 != 0, empty_with: mask & 128 != 0, result_underscores: mask & 256 != 0 } }

fn main() {
    let n: usize = std::env::args().nth(1).and_then(|s| s.parse().ok()).unwrap_or(150);
    let seed: u64 = std::env::args().nth(2).and_then(|s| s.parse().ok()).unwrap_or(0);
    // the parser as it is: which switches are on (found by the first runs of this program; each is a recorded finding)
    let actual: u32 = std::env::var("C12_ACTUAL").ok().and_then(|s| s.parse().ok()).unwrap_or(0b111110111);
    let mut g = Gen { r: Rng(seed.wrapping_mul(104729).wrapping_add(7)), out: vec![] };
    let mut lay = Rng(seed ^ 0x9e3779b97f4a7c15);
    let pool: Vec<String> = ["a", ";", ":", ",", "{", "}", "(", ")", "<", ">", "...", ".", "=", "->", "as", "func", "interface", "new", "u8", "a:b", "a:b/c", "\"s\"", "import", "with", "_", "[", "]", "static", "type", "1.0.0", "a:b@1.0", "a:b@01.0.0", "a:b/c@1.+0.0", "A", "a-", "a:b-", "%x-y-", "a:b/c-"].iter().map(|s| s.to_string()).collect();
    let (mut texts, mut accepted, mut rejected) = (0u64, 0u64, 0u64);
    let mut findings = [0u64; 9];
    let mut first: [Option<String>; 9] = Default::default();
    let mut kw_colon: (u64, Option<String>) = (0, None);
    let mut check = |toks: &[String], lay: &mut Rng, what: &str| {
        let (src, glued) = render(toks, lay);
        texts += 1;
        let real = Document::parse(&src);
        let strict = Ref { t: toks, sw: sw_from(0) }.document();
        let relaxed = Ref { t: toks, sw: sw_from(actual) }.document();
        match &real { Ok(_) => accepted += 1, Err(e) => {
            rejected += 1;
            let inside = e.labels().map(|mut l| l.all(|s| s.offset() + s.len() <= src.len() && src.is_char_boundary(s.offset()) && src.is_char_boundary(s.offset() + s.len()))).unwrap_or(false);
            if !inside { println!("C12-BOUNDED VIOLATION: the error for a rejected text is not located inside the source ({e:?}); {what}; text: {src:?}"); std::process::exit(1); }
        } }
        if real.is_ok() != relaxed {
            // recorded finding: a keyword written immediately before `:` is lexed as an identifier (`type: u8` is accepted,
            // `type : u8` is not).  Only a text whose verdict is explained by exactly that reading is attributed to it.
            let alt: Vec<String> = toks.iter().enumerate().map(|(i, t)| if KEYWORDS.contains(&t.as_str()) && glued[i] && toks.get(i + 1).map(|x| x == ":").unwrap_or(false) { "kwid".to_string() } else { t.clone() }).collect();
            if alt != toks && (Ref { t: &alt, sw: sw_from(actual) }).document() == real.is_ok() {
                kw_colon.0 += 1; if kw_colon.1.is_none() { kw_colon.1 = Some(src.clone()); }
                return;
            }
            println!("C12-BOUNDED VIOLATION: the parser {} a text that the grammar of LANGUAGE.md (with the recorded deviations) {}; {what}; tokens: {}", if real.is_ok() { "ACCEPTS" } else { "REJECTS" }, if relaxed { "derives" } else { "does not derive" }, toks.join(" "));
            if let Err(e) = &real { println!("  parser error: {e}"); }
            std::process::exit(1);
        }
        if relaxed != strict {
            // attribute to the switches whose removal changes the verdict
            for b in 0..9 { if actual & (1 << b) != 0 && (Ref { t: toks, sw: sw_from(actual & !(1 << b)) }).document() != relaxed { findings[b] += 1; if first[b].is_none() { first[b] = Some(toks.join(" ")); } } }
        }
    };
    // fixed corner documents (one per clause of the property and per recorded deviation)
    let corners = [
        "package a:b ; record r { }", "package a:b ; variant v { }", "package a:b ; enum e { }", "package a:b ; flags f { }", "package a:b ; type t = tuple < > ;",
        "package a:b ; world w { include a with { } ; }", "package a:b ; interface i { use a . { } ; }", "package a:b ; let x = new c:d { } ;", "package a:b ; let x = new c:d { ... } ;",
        "package a:b ; let x = new c:d { ... , c } ;", "package a:b ; type f = func ( ) -> ( a : u8 ) ;", "package a:b ; type f = func ( ) -> ;", "package a:b ; type t = borrow < u8 > ;",
        "package a:b ; type t = result < _ , _ > ;", "package a:b ; type t = result < _ > ;", "package a:b ; import A : func ( ) ;", "package a:b ; import aB : func ( ) ;",
        "package a:b@1.0 ;", "package a:b@1.0.0-rc.1+build ;", "package a:b targets c:d ;", "package a:b ; import interface : func ( ) ;", "package a:b ; import %interface : func ( ) ;",
        "package a:b ; let x = new c:d { a , } ;", "package a:b ; let x = new c:d { a , ... , } ;", "package a:b ; export x ... as y ;", "package a:b ; let x = y . z [ \"s\" ] ;",
        "package a:b ; record r { a : u8 , , }", "package a:b ; import x : a:b/c@1.0.0 ;", "package a:b ; import x : a:b@1.0.0 ;", "package a:b ; world w { import a:b/c ; export x : interface { } ; }", "package a:b ; type x- = string ;", "package a:b- ;",
        // versions that are not valid semver: leading zeros, explicit signs, two or four numeric parts
        "package a:b@01.2.3 ;", "package a:b@1.2.03 ;", "package a:b@1.+2.3 ;", "package a:b@1.2 ;", "package a:b@1.2.3.4 ;", "package a:b@1.2.3-01 ;", "package a:b@0.0.0 ;",
        "package a:b ; import x : c:d/e@00.1.0 ;", "package a:b ; let x = new c:d@1.02.3 { } ;", "package a:b targets c:d/w@1.2.+3 ;", "package a:b ; world w { import c:d/e@01.0.0 ; include c:d/w@1.0.00 ; }", "package a:b ; import x : a:b-/c ;",
    ];
    for (ci, c) in corners.iter().enumerate() {
        let toks: Vec<String> = c.split(' ').map(|s| s.to_string()).collect();
        check(&toks, &mut lay, &format!("corner document #{ci}"));
    }
    for d in 0..n {
        let toks = g.document();
        check(&toks, &mut lay, &format!("generated document #{d}"));
        for i in 0..toks.len() {
            let mut m = toks.clone(); m.remove(i); check(&m, &mut lay, &format!("document #{d}, token {i} deleted"));
            let mut m = toks.clone(); m.insert(i, toks[i].clone()); check(&m, &mut lay, &format!("document #{d}, token {i} duplicated"));
            if i + 1 < toks.len() { let mut m = toks.clone(); m.swap(i, i + 1); check(&m, &mut lay, &format!("document #{d}, tokens {i},{} swapped", i + 1)); }
            for _ in 0..3 { let mut m = toks.clone(); let k = lay.below(pool.len()); m[i] = pool[k].clone(); check(&m, &mut lay, &format!("document #{d}, token {i} replaced by `{}`", pool[k])); }
        }
    }
    // the layouts of the recorded lexer finding, for every keyword class of position
    for c in ["package a:b ; import type : func ( ) ;", "package a:b ; import x as type : func ( ) ;", "package a:b ; interface i { type : func ( ) ; }", "package a:b ; let x = new a:b { import : y } ;", "package a:b ; record r { type : u8 }", "package a:b ; type f = func ( world : u8 ) ;"] {
        let toks: Vec<String> = c.split(' ').map(|s| s.to_string()).collect();
        for _ in 0..12 { check(&toks, &mut lay, "keyword before a colon"); }
    }
    let mut any = false;
    if let Some(f) = &kw_colon.1 { any = true; println!("FINDING keyword-before-colon-lexed-as-identifier {} texts, e.g. {:?}", kw_colon.0, f); }
    for b in 0..9 { if let Some(f) = &first[b] { any = true; println!("FINDING {} {} texts, e.g. {}", SWITCHES[b], findings[b], f); } }
    println!("C12-GRAMMAR {} {{\"bounded\": true, \"documents\": {n}, \"seed\": {seed}, \"texts\": {texts}, \"accepted\": {accepted}, \"rejected\": {rejected}, \"texts_in_a_recorded_deviation_class\": {:?}}}", if any { "findings" } else { "ok" }, findings);
    std::process::exit(if any { 3 } else { 0 });
}
