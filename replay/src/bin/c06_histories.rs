//! BOUNDED stand-in for the graph operations Verus cannot reach (remove_node, unregister_package, define_type,
//! imports(), get_instantiation_arguments use iterator adapters / closures outside the accepted dialect).
//!
//! Enumerates operation histories over a small universe on the REAL wac-graph crate and checks, after every
//! operation, the executable mirror of the C06 invariant through the public API:
//!   * no call with live identifiers panics;
//!   * every export name maps to a live node; a node's export name maps back to it; removed nodes hold no name;
//!   * every listed instantiation argument has a live source, argument names are unique, and every import of an
//!     instantiated package that is not listed as satisfied is listed by imports() as an implicit import;
//!   * after remove_node / unregister_package nothing refers to the removed nodes (dependants removed exactly once);
//!   * at the end of every history the graph still encodes: Ok, or one of the documented errors
//!     (cycle / import conflict / merge conflict) - never a ValidationFailure.
//! usage: c06_histories <depth> <random_histories> <random_len> <seed>
//! Exit 0 = no violation in everything explored, 1 = violation (a replayable history is printed).
use std::collections::{BTreeSet, HashSet};
use std::panic::{catch_unwind, AssertUnwindSafe};
use wac_graph::{
    types::{DefinedType, ItemKind, Package, PrimitiveType, Type, ValueType},
    CompositionGraph, EncodeError, EncodeOptions, NodeId, NodeKind, PackageId,
};

#[derive(Clone, Debug, PartialEq)]
enum Op {
    Instantiate(usize),              // package slot
    Import(usize),                   // name index
    Alias(usize, usize),             // node slot, export-name index
    SetArg(usize, usize, usize),     // inst slot, arg-name index, source slot
    UnsetArg(usize, usize, usize),
    Export(usize, usize),            // node slot, export-name index
    Unexport(usize),
    Remove(usize),
    Unregister(usize),
    Register(usize),
    Define(usize),                   // type index 0..3
}

const IMPORT_NAMES: [&str; 2] = ["x", "y"];
const EXPORT_NAMES: [&str; 2] = ["e1", "e2"];
const ARG_NAMES: [&str; 2] = ["f", "h"];
const ALIAS_NAMES: [&str; 2] = ["g", "k"];
const PKG_WAT: [&str; 2] = [
    r#"(component (import "f" (func)) (export "g" (func 0)))"#,
    r#"(component (import "f" (func)) (import "h" (func)) (export "g" (func 0)) (export "k" (func 1)))"#,
];
const TYPE_NAMES: [&str; 3] = ["a", "b", "c"];

#[derive(Clone)]
struct World {
    g: CompositionGraph,
    pkgs: [Option<PackageId>; 2],
    nodes: Vec<NodeId>,      // every node id ever created, by slot
    func_kind: ItemKind,
    tys: [Type; 3],
    // shadow model of the export table: every name a successful export / define_type bound, until it is unexported or
    // its node disappears ("every query reflects exactly the surviving items")
    exports: std::collections::BTreeMap<&'static str, NodeId>,
}

fn new_world() -> World {
    let mut g = CompositionGraph::new();
    let a = g.types_mut().add_defined_type(DefinedType::Alias(ValueType::Primitive(PrimitiveType::U8)));
    let b = g.types_mut().add_defined_type(DefinedType::List(ValueType::Defined(a)));
    let c = g.types_mut().add_defined_type(DefinedType::Tuple(vec![ValueType::Defined(a), ValueType::Defined(b)]));
    let mut w = World {
        g,
        pkgs: [None, None],
        nodes: vec![],
        func_kind: ItemKind::Value(ValueType::Primitive(PrimitiveType::U8)),
        tys: [Type::Value(ValueType::Defined(a)), Type::Value(ValueType::Defined(b)), Type::Value(ValueType::Defined(c))],
        exports: Default::default(),
    };
    for i in 0..2 {
        register(&mut w, i);
    }
    let p = w.pkgs[0].unwrap();
    w.func_kind = w.g.types()[w.g[p].ty()].imports["f"];
    w
}

fn register(w: &mut World, i: usize) {
    let bytes = wat::parse_str(PKG_WAT[i]).unwrap();
    let p = Package::from_bytes(&format!("t:p{i}"), None, bytes, w.g.types_mut()).unwrap();
    w.pkgs[i] = Some(w.g.register_package(p).unwrap());
}

fn live(w: &World, n: NodeId) -> bool {
    w.g.node_ids().any(|m| m == n)
}

/// Applies one operation; Ok(true) = applied (state may have changed), Ok(false) = not applicable here.
fn apply(w: &mut World, op: &Op) -> Result<bool, String> {
    let r = apply_op(w, op);
    // names held by nodes that did not survive this operation are gone (identifiers are reused by later operations)
    let live_ids: HashSet<NodeId> = w.g.node_ids().collect();
    w.exports.retain(|_, n| live_ids.contains(n));
    r
}

fn apply_op(w: &mut World, op: &Op) -> Result<bool, String> {
    match *op {
        Op::Instantiate(p) => match w.pkgs[p] {
            Some(id) => { let n = w.g.instantiate(id); w.nodes.push(n); Ok(true) }
            None => Ok(false),
        },
        Op::Import(i) => match w.g.import(IMPORT_NAMES[i], w.func_kind) {
            Ok(n) => { w.nodes.push(n); Ok(true) }
            Err(_) => Ok(true),
        },
        Op::Alias(s, e) => {
            if s >= w.nodes.len() || !live(w, w.nodes[s]) { return Ok(false); }
            if let Ok(n) = w.g.alias_instance_export(w.nodes[s], ALIAS_NAMES[e]) {
                match w.g.get_alias_source(n) {
                    Some((src, name)) if src == w.nodes[s] && name == ALIAS_NAMES[e] => {}
                    other => return Err(format!("alias_instance_export returned a node whose source is {other:?}")),
                }
                if !w.nodes.contains(&n) { w.nodes.push(n); }
            }
            Ok(true)
        }
        Op::SetArg(i, a, s) | Op::UnsetArg(i, a, s) => {
            if i >= w.nodes.len() || s >= w.nodes.len() || !live(w, w.nodes[i]) || !live(w, w.nodes[s]) { return Ok(false); }
            let (inst, src, name) = (w.nodes[i], w.nodes[s], ARG_NAMES[a]);
            let listed = |g: &CompositionGraph| g.get_instantiation_arguments(inst).any(|(n, x)| n == name && x == src);
            let listed_any = |g: &CompositionGraph| g.get_instantiation_arguments(inst).any(|(n, _)| n == name);
            let is_inst = matches!(w.g[inst].kind(), NodeKind::Instantiation(_));
            if matches!(op, Op::SetArg(..)) {
                let before_any = listed_any(&w.g);
                let before = listed(&w.g);
                match w.g.set_instantiation_argument(inst, name, src) {
                    Ok(()) => {
                        if !is_inst { return Err("set_instantiation_argument succeeded on a node that is not an instantiation".into()); }
                        if !listed(&w.g) { return Err(format!("set_instantiation_argument returned Ok but `{name}` is not listed with that argument node")); }
                        if before_any && !before { return Err(format!("set_instantiation_argument replaced an argument that was already passed (`{name}`)")); }
                    }
                    Err(_) => {
                        if listed(&w.g) != before || listed_any(&w.g) != before_any { return Err("a failed set_instantiation_argument changed the arguments".into()); }
                    }
                }
            } else {
                // "unsets the argument IF it is passed by that node": everything else - the same argument passed by another
                // node, the other arguments, the other instantiations - stays as it was
                let all_args = |g: &CompositionGraph| -> Vec<(NodeId, Vec<(String, NodeId)>)> {
                    g.node_ids().filter(|n| matches!(g[*n].kind(), NodeKind::Instantiation(_))).map(|n| { let mut a: Vec<(String, NodeId)> = g.get_instantiation_arguments(n).map(|(x, y)| (x.to_string(), y)).collect(); a.sort(); (n, a) }).collect()
                };
                let before_all = all_args(&w.g);
                let r = w.g.unset_instantiation_argument(inst, name, src);
                let mut want = before_all.clone();
                if r.is_ok() { for (n, a) in want.iter_mut() { if *n == inst { a.retain(|(x, y)| !(x == name && *y == src)); } } }
                if all_args(&w.g) != want {
                    return Err(format!("unset_instantiation_argument(`{name}`, a node that {} the argument) returned {}: the arguments of the graph went from {:?} to {:?}", if listed_any(&w.g) || before_all.iter().any(|(n, a)| *n == inst && a.iter().any(|(x, y)| x == name && *y == src)) { "passes / passed" } else { "does not pass" }, if r.is_ok() { "Ok" } else { "Err" }, before_all, all_args(&w.g)));
                }
            }
            Ok(true)
        }
        Op::Export(s, e) => {
            if s >= w.nodes.len() || !live(w, w.nodes[s]) { return Ok(false); }
            let taken = w.g.get_export(EXPORT_NAMES[e]);
            match w.g.export(w.nodes[s], EXPORT_NAMES[e]) {
                Ok(()) => {
                    if taken.is_some() { return Err(format!("export succeeded although `{}` was already exported", EXPORT_NAMES[e])); }
                    if w.g.get_export(EXPORT_NAMES[e]) != Some(w.nodes[s]) { return Err("export returned Ok but the name does not map to the node".into()); }
                    w.exports.insert(EXPORT_NAMES[e], w.nodes[s]);
                }
                Err(_) => { if w.g.get_export(EXPORT_NAMES[e]) != taken { return Err("a failed export changed the export map".into()); } }
            }
            Ok(true)
        }
        Op::Unexport(s) => {
            if s >= w.nodes.len() || !live(w, w.nodes[s]) { return Ok(false); }
            let n = w.nodes[s];
            let was_def = matches!(w.g[n].kind(), NodeKind::Definition);
            let r = w.g.unexport(n);
            if r.is_err() != was_def { return Err(format!("unexport: Err exactly for definitions violated (was_def={was_def})")); }
            if r.is_ok() {
                w.exports.retain(|_, v| *v != n);
                for name in EXPORT_NAMES.iter().chain(TYPE_NAMES.iter()) {
                    if w.g.get_export(name) == Some(n) { return Err(format!("after unexport the name `{name}` still maps to the node")); }
                }
            }
            Ok(true)
        }
        Op::Remove(s) => {
            if s >= w.nodes.len() || !live(w, w.nodes[s]) { return Ok(false); }
            let n = w.nodes[s];
            // dependants: aliases (transitively) and dependent definitions are expected to disappear as well
            w.g.remove_node(n);
            if live(w, n) { return Err("removed node is still listed".into()); }
            Ok(true)
        }
        Op::Unregister(p) => match w.pkgs[p].take() {
            Some(id) => {
                w.g.unregister_package(id);
                for n in w.g.node_ids() {
                    if w.g[n].package() == Some(id) { return Err("a node of the unregistered package survives".into()); }
                }
                Ok(true)
            }
            None => Ok(false),
        },
        Op::Register(p) => {
            if let Some(orig) = w.pkgs[p] {
                // registering a package that is already registered is the documented error and must change nothing
                let before = w.g.packages().count();
                let bytes = wat::parse_str(PKG_WAT[p]).unwrap();
                let dup = Package::from_bytes(&format!("t:p{p}"), None, bytes, w.g.types_mut()).unwrap();
                if w.g.register_package(dup).is_ok() { return Err("registering an already registered package succeeded".into()); }
                if w.g.packages().count() != before { return Err(format!("a failed register_package changed the number of registered packages ({before} -> {})", w.g.packages().count())); }
                match w.g.get_package_by_name(&format!("t:p{p}"), None) { Some((id, _)) if id == orig => {}, other => return Err(format!("after a failed register_package the name resolves to {:?}, not to the registered package", other.map(|(i, _)| i))) }
                return Ok(true);
            }
            register(w, p);
            Ok(true)
        }
        Op::Define(t) => {
            if let Ok(n) = w.g.define_type(TYPE_NAMES[t], w.tys[t]) { w.nodes.push(n); w.exports.insert(TYPE_NAMES[t], n); }
            Ok(true)
        }
    }
}

/// The executable mirror of the C06 invariant, through the public API only.
fn check(w: &World) -> Result<(), String> {
    let g = &w.g;
    let live_ids: HashSet<NodeId> = g.node_ids().collect();
    // the export table against the history
    for name in EXPORT_NAMES.iter().chain(TYPE_NAMES.iter()) {
        let expected = w.exports.get(name).copied().filter(|n| live_ids.contains(n));
        if g.get_export(name) != expected { return Err(format!("get_export(`{name}`) = {:?}, the history of successful exports says {:?}", g.get_export(name), expected)); }
    }
    // export names
    for name in EXPORT_NAMES.iter().chain(TYPE_NAMES.iter()) {
        if let Some(n) = g.get_export(name) {
            if !live_ids.contains(&n) { return Err(format!("export `{name}` maps to a removed node")); }
        }
    }
    for &n in &live_ids {
        let node = &g[n];
        if let Some(s) = node.export_name() {
            if g.get_export(s) != Some(n) { return Err(format!("node's export name `{s}` does not map back to it")); }
        }
        if matches!(node.kind(), NodeKind::Definition) && node.export_name().is_none() { return Err("a definition is not exported".into()); }
        if let Some(s) = g.get_import_name(n) {
            if !g.imports().any(|(name, _, id)| name == s && id == Some(n)) { return Err(format!("import node `{s}` is not listed by imports()")); }
        }
        if matches!(node.kind(), NodeKind::Alias) {
            match g.get_alias_source(n) {
                Some((src, _)) => if !live_ids.contains(&src) { return Err("alias source is a removed node".into()); },
                None => return Err("an alias node has no source".into()),
            }
        }
    }
    for (name, _, id) in g.imports() {
        if let Some(id) = id { if !live_ids.contains(&id) { return Err(format!("imports() lists removed node for `{name}`")); } }
    }
    // arguments
    let implicit: Vec<String> = g.imports().filter(|(_, _, id)| id.is_none()).map(|(n, _, _)| n.to_string()).collect();
    for &n in &live_ids {
        if !matches!(g[n].kind(), NodeKind::Instantiation(_)) { continue; }
        let pkg = g[n].package().ok_or("instantiation without package")?;
        let world = &g.types()[g[pkg].ty()];
        let args: Vec<(String, NodeId)> = g.get_instantiation_arguments(n).map(|(a, s)| (a.to_string(), s)).collect();
        let names: BTreeSet<&str> = args.iter().map(|(a, _)| a.as_str()).collect();
        if names.len() != args.len() { return Err("an argument is listed twice".into()); }
        for (a, s) in &args {
            if !live_ids.contains(s) { return Err(format!("argument `{a}` is satisfied by a removed node")); }
            if !world.imports.contains_key(a.as_str()) { return Err(format!("argument `{a}` is not an import of the package")); }
        }
        for (imp, _) in world.imports.iter() {
            if !names.contains(imp.as_str()) && !implicit.iter().any(|i| i == imp) {
                return Err(format!("import `{imp}` of an instantiation is neither satisfied nor implicitly imported"));
            }
        }
    }
    Ok(())
}

fn check_encode(w: &World) -> Result<(), String> {
    match w.g.encode(EncodeOptions::default()) {
        Ok(_) => Ok(()),
        Err(EncodeError::ValidationFailure { source }) => Err(format!("encode produced an invalid component: {source}")),
        Err(_) => Ok(()), // documented errors: cycle, implicit import conflict, merge conflict
    }
}

fn candidate_ops(w: &World) -> Vec<Op> {
    let mut ops = vec![];
    for p in 0..2 { ops.push(Op::Instantiate(p)); }
    ops.push(Op::Import(0));
    ops.push(Op::Import(1));
    let n = w.nodes.len().min(5);
    for s in 0..n {
        for e in 0..2 { ops.push(Op::Alias(s, e)); ops.push(Op::Export(s, e)); }
        ops.push(Op::Unexport(s));
        ops.push(Op::Remove(s));
        for i in 0..n { for a in 0..2 { ops.push(Op::SetArg(i, a, s)); ops.push(Op::UnsetArg(i, a, s)); } }
    }
    for p in 0..2 { ops.push(Op::Unregister(p)); ops.push(Op::Register(p)); }
    for t in 0..3 { ops.push(Op::Define(t)); }
    ops
}

struct Stats { histories: u64, steps: u64, distinct: HashSet<String>, sample: Vec<String> }

fn step(w: &World, op: &Op) -> Result<Option<World>, String> {
    let mut w2 = w.clone();
    let r = catch_unwind(AssertUnwindSafe(|| {
        match apply(&mut w2, op) {
            Ok(true) => { check(&w2)?; Ok(Some(())) }
            Ok(false) => Ok(None),
            Err(e) => Err(e),
        }
    }));
    match r {
        Ok(Ok(Some(()))) => Ok(Some(w2)),
        Ok(Ok(None)) => Ok(None),
        Ok(Err(e)) => Err(e),
        Err(p) => {
            let msg = p.downcast_ref::<String>().cloned().or_else(|| p.downcast_ref::<&str>().map(|s| s.to_string())).unwrap_or_default();
            Err(format!("panicked: {msg}"))
        }
    }
}

fn dfs(w: &World, depth: usize, hist: &mut Vec<Op>, st: &mut Stats) -> Result<(), (Vec<Op>, String)> {
    if depth == 0 {
        st.histories += 1;
        if st.sample.len() < 3 { st.sample.push(format!("{hist:?}")); }
        let r = catch_unwind(AssertUnwindSafe(|| check_encode(w)));
        return match r {
            Ok(Ok(())) => Ok(()),
            Ok(Err(e)) => Err((hist.clone(), e)),
            Err(_) => Err((hist.clone(), "encode panicked".into())),
        };
    }
    for op in candidate_ops(w) {
        hist.push(op.clone());
        match step(w, &op) {
            Ok(Some(w2)) => { st.steps += 1; st.distinct.insert(format!("{hist:?}")); dfs(&w2, depth - 1, hist, st)?; }
            Ok(None) => {}
            Err(e) => return Err((hist.clone(), e)),
        }
        hist.pop();
    }
    Ok(())
}

fn main() {
    let a: Vec<String> = std::env::args().collect();
    let depth: usize = a.get(1).and_then(|s| s.parse().ok()).unwrap_or(3);
    let randoms: u64 = a.get(2).and_then(|s| s.parse().ok()).unwrap_or(2000);
    let rlen: usize = a.get(3).and_then(|s| s.parse().ok()).unwrap_or(10);
    let seed: u64 = a.get(4).and_then(|s| s.parse().ok()).unwrap_or(0);
    std::panic::set_hook(Box::new(|_| {}));
    let w0 = new_world();
    let mut st = Stats { histories: 0, steps: 0, distinct: HashSet::new(), sample: vec![] };
    let mut fail: Option<(Vec<Op>, String)> = None;
    // exhaustive exploration from several start states (so that short suffixes reach set/set/remove patterns)
    let prefixes: Vec<Vec<Op>> = vec![
        vec![],
        vec![Op::Instantiate(0), Op::Instantiate(1), Op::Import(0)],
        vec![Op::Instantiate(1), Op::Import(0), Op::Alias(0, 0), Op::Define(0), Op::Export(1, 0)],
    ];
    for pre in &prefixes {
        let mut w = w0.clone();
        let mut hist = vec![];
        let mut ok = true;
        for op in pre {
            hist.push(op.clone());
            match step(&w, op) {
                Ok(Some(w2)) => w = w2,
                Ok(None) => {}
                Err(e) => { fail = Some((hist.clone(), e)); ok = false; break; }
            }
        }
        if !ok || fail.is_some() { break; }
        if depth == 0 { if let Err(f) = dfs(&w, 0, &mut hist, &mut st) { fail = Some(f); break; } continue; }
        // first level sequentially, the subtrees in parallel (16 cores)
        let mut roots: Vec<(Vec<Op>, World)> = vec![];
        for op in candidate_ops(&w) {
            let mut h = hist.clone(); h.push(op.clone());
            match step(&w, &op) {
                Ok(Some(w2)) => { st.steps += 1; roots.push((h, w2)); }
                Ok(None) => {}
                Err(e) => { fail = Some((h, e)); break; }
            }
        }
        if fail.is_some() { break; }
        let nthreads = std::thread::available_parallelism().map(|n| n.get()).unwrap_or(4).min(16);
        let chunks: Vec<Vec<(Vec<Op>, World)>> = (0..nthreads).map(|t| roots.iter().enumerate().filter(|(i, _)| i % nthreads == t).map(|(_, r)| r.clone()).collect()).collect();
        let results: Vec<(Stats, Option<(Vec<Op>, String)>)> = std::thread::scope(|sc| {
            let hs: Vec<_> = chunks.into_iter().map(|chunk| sc.spawn(move || {
                let mut st = Stats { histories: 0, steps: 0, distinct: HashSet::new(), sample: vec![] };
                let mut fail = None;
                for (mut h, w2) in chunk {
                    if let Err(f) = dfs(&w2, depth - 1, &mut h, &mut st) { fail = Some(f); break; }
                }
                (st, fail)
            })).collect();
            hs.into_iter().map(|h| h.join().unwrap()).collect()
        });
        for (s2, f2) in results {
            st.histories += s2.histories; st.steps += s2.steps; st.distinct.extend(s2.distinct);
            if st.sample.len() < 3 { st.sample.extend(s2.sample.into_iter().take(1)); }
            if fail.is_none() { fail = f2; }
        }
        if fail.is_some() { break; }
    }
    // random longer histories (xorshift, seeded)
    let mut x = seed.wrapping_mul(0x9E3779B97F4A7C15) ^ 0xD1B54A32D192ED03;
    let mut rnd = || { x ^= x << 13; x ^= x >> 7; x ^= x << 17; x };
    if fail.is_none() {
        'outer: for _ in 0..randoms {
            let mut w = w0.clone();
            let mut hist = vec![];
            for _ in 0..rlen {
                let ops = candidate_ops(&w);
                let op = ops[(rnd() % ops.len() as u64) as usize].clone();
                hist.push(op.clone());
                match step(&w, &op) {
                    Ok(Some(w2)) => { st.steps += 1; w = w2; }
                    Ok(None) => { hist.pop(); }
                    Err(e) => { fail = Some((hist, e)); break 'outer; }
                }
            }
            st.histories += 1;
            st.distinct.insert(format!("{hist:?}"));
            let r = catch_unwind(AssertUnwindSafe(|| check_encode(&w)));
            match r {
                Ok(Ok(())) => {}
                Ok(Err(e)) => { fail = Some((hist, e)); break; }
                Err(_) => { fail = Some((hist, "encode panicked".into())); break; }
            }
        }
    }
    let summary = format!(
        "{{\"bounded\": true, \"exhaustive_depth\": {depth}, \"random_histories\": {randoms}, \"random_len\": {rlen}, \"seed\": {seed}, \"histories\": {}, \"steps\": {}, \"distinct_histories\": {}, \"samples\": {:?}}}",
        st.histories, st.steps, st.distinct.len(), st.sample
    );
    match fail {
        None => { println!("C06-BOUNDED ok {summary}"); }
        Some((h, e)) => {
            println!("C06-BOUNDED VIOLATION history={h:?} failure={e} {summary}");
            std::process::exit(1);
        }
    }
}
