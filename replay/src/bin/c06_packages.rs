//! BOUNDED stand-in for the package-table part of `CompositionGraph::unregister_package` / `get_package_by_name`
//! (outside Verus's dialect: `x as &dyn BorrowedKey`, a `filter` closure capturing `self`); `register_package`,
//! `alloc_package` and `Index<PackageId>` are proved in unit U4 against the invariant this program checks dynamically.
//! Exhaustive register / unregister histories over N distinct packages (two of them share a name at different
//! versions) up to a depth; after EVERY operation, with the real wac-graph crate:
//!   * no call with live identifiers panics (every history runs under catch_unwind);
//!   * registering a registered key fails with PackageAlreadyRegistered and changes nothing;
//!   * the returned identifier is fresh: it differs from every identifier handed out before (live or stale);
//!   * every live identifier still designates its own package (name and version through `graph[id]`),
//!     `get_package_by_name` finds exactly the registered packages with their identifiers;
//!   * every stale identifier is dead: `graph[stale]` panics ("invalid package id") -- never another package;
//!   * an instantiation of every live package can be created and the graph still encodes.
//! Exit 0 = held on everything enumerated, 1 = a failing history is printed.  usage: c06_packages [packages] [depth]
use std::panic::{catch_unwind, AssertUnwindSafe};
use wac_graph::{types::Package, CompositionGraph, EncodeOptions, PackageId};

const WAT: &str = r#"(component (import "f" (func)) (export "g" (func 0)))"#;

fn spec(i: usize) -> (String, Option<semver::Version>) {
    match i {
        0 => ("t:p0".into(), None),
        1 => ("t:p1".into(), Some(semver::Version::new(1, 0, 0))),
        2 => ("t:p1".into(), Some(semver::Version::new(1, 1, 0))),
        n => (format!("t:p{n}"), None),
    }
}

fn mk(g: &mut CompositionGraph, i: usize) -> Package {
    let (name, version) = spec(i);
    Package::from_bytes(&name, version.as_ref(), wat::parse_str(WAT).unwrap(), g.types_mut()).unwrap()
}

#[derive(Clone, Copy, Debug, PartialEq)]
enum Op { Reg(usize), Unreg(usize) }

struct Outcome { ops: u64 }

/// replays a history from an empty graph, checking after every operation; Err(description) on a deviation
fn run(hist: &[Op], n: usize, encode: bool) -> Result<u64, String> {
    let mut g = CompositionGraph::new();
    let mut live: Vec<Option<PackageId>> = vec![None; n];
    let mut handed_out: Vec<PackageId> = vec![];
    let mut stale: Vec<PackageId> = vec![];
    let mut ops = 0u64;
    for (step, op) in hist.iter().enumerate() {
        ops += 1;
        match *op {
            Op::Reg(i) => {
                let p = mk(&mut g, i);
                match (g.register_package(p), live[i]) {
                    (Ok(id), None) => {
                        if handed_out.contains(&id) {
                            return Err(format!("step {step}: register returned {id:?}, an identifier handed out before (stale identifiers come back to life)"));
                        }
                        handed_out.push(id);
                        live[i] = Some(id);
                    }
                    (Err(_), Some(_)) => {}
                    (Ok(id), Some(old)) => return Err(format!("step {step}: package {i} registered twice ({old:?}, {id:?})")),
                    (Err(e), None) => return Err(format!("step {step}: register of an unregistered key failed: {e}")),
                }
            }
            Op::Unreg(i) => {
                let id = live[i].take().expect("generator only unregisters live packages");
                g.unregister_package(id);
                stale.push(id);
            }
        }
        // queries reflect exactly the surviving packages
        for i in 0..n {
            let (name, version) = spec(i);
            let found = g.get_package_by_name(&name, version.as_ref());
            match (live[i], found) {
                (Some(id), Some((fid, pkg))) => {
                    if fid != id { return Err(format!("step {step}: get_package_by_name({name}, {version:?}) = {fid:?}, registered as {id:?}")); }
                    if pkg.name() != name || pkg.version() != version.as_ref() { return Err(format!("step {step}: get_package_by_name({name}) returns package {}", pkg.name())); }
                    let p = &g[id];
                    if p.name() != name || p.version() != version.as_ref() {
                        return Err(format!("step {step}: graph[{id:?}] is {}@{:?}, expected {name}@{version:?}", p.name(), p.version()));
                    }
                }
                (None, None) => {}
                (Some(id), None) => return Err(format!("step {step}: registered package {name} ({id:?}) not found by name")),
                (None, Some((fid, _))) => return Err(format!("step {step}: unregistered package {name} still found by name ({fid:?})")),
            }
        }
        for s in &stale {
            let s = *s;
            let r = catch_unwind(AssertUnwindSafe(|| g[s].name().to_string()));
            if let Ok(name) = r {
                return Err(format!("step {step}: the stale identifier {s:?} designates package {name} (it must be invalid)"));
            }
        }
    }
    if encode {
        let ids: Vec<PackageId> = live.iter().flatten().copied().collect();
        for id in ids { g.instantiate(id); }
        if let Err(e) = g.encode(EncodeOptions::default()) { return Err(format!("final graph does not encode: {e}")); }
    }
    let _ = Outcome { ops };
    Ok(ops)
}

fn dfs(hist: &mut Vec<Op>, live: &mut Vec<bool>, n: usize, depth: usize, stats: &mut (u64, u64)) -> Result<(), (Vec<Op>, String)> {
    // check the history itself (every prefix was checked when it was the history)
    if !hist.is_empty() {
        let h = hist.clone();
        let r = catch_unwind(AssertUnwindSafe(|| run(&h, n, true)));
        stats.0 += 1;
        match r {
            Ok(Ok(ops)) => stats.1 += ops,
            Ok(Err(e)) => return Err((h, e)),
            Err(p) => {
                let msg = p.downcast_ref::<String>().cloned().or_else(|| p.downcast_ref::<&str>().map(|s| s.to_string())).unwrap_or_default();
                return Err((h, format!("panic with live identifiers: {msg}")));
            }
        }
    }
    if hist.len() == depth { return Ok(()); }
    for i in 0..n {
        let op = if live[i] { Op::Unreg(i) } else { Op::Reg(i) };
        live[i] = !live[i];
        hist.push(op);
        dfs(hist, live, n, depth, stats)?;
        hist.pop();
        live[i] = !live[i];
        // registering a registered key (must fail, change nothing) as a leaf only
        if live[i] && hist.len() + 1 <= depth {
            hist.push(Op::Reg(i));
            let h = hist.clone();
            let r = catch_unwind(AssertUnwindSafe(|| run(&h, n, false)));
            stats.0 += 1;
            hist.pop();
            match r {
                Ok(Ok(_)) => {}
                Ok(Err(e)) => return Err((h, e)),
                Err(_) => return Err((h, "panic with live identifiers (duplicate registration)".into())),
            }
        }
    }
    Ok(())
}

fn main() {
    let n: usize = std::env::args().nth(1).and_then(|s| s.parse().ok()).unwrap_or(4);
    let depth: usize = std::env::args().nth(2).and_then(|s| s.parse().ok()).unwrap_or(7);
    std::panic::set_hook(Box::new(|_| {}));
    let mut stats = (0u64, 0u64);
    match dfs(&mut vec![], &mut vec![false; n], n, depth, &mut stats) {
        Ok(()) => println!("C06-PACKAGES-BOUNDED ok {{\"bounded\": true, \"packages\": {n}, \"max_history\": {depth}, \"histories\": {}, \"operations\": {}}}", stats.0, stats.1),
        Err((h, e)) => {
            println!("C06-PACKAGES-BOUNDED VIOLATION history={h:?}: {e}");
            std::process::exit(1);
        }
    }
}
