//! BOUNDED stand-in for wac_types::validate_target (outside Verus's dialect: `continue` in for-loops, `.fold`),
//! and the "same verdict" clause of C11: every (world, component) pair of a small universe is checked by the REAL
//! stand-alone function and compared with the `conforms` relation that unit U9 proves for the resolution-time check
//! (exact import/export names, `sub(promote(world item), component item)` for imports, the converse for exports).
//! A disagreement is printed as `FINDING <key> ...`; key `semver-compatible-name` is the class recorded in
//! known_findings.json (the stand-alone check resolves names semver-aware, the resolution-time check exactly).
//! Exit 0 = no disagreement, 3 = only FINDING lines were printed, 1 = should not happen (reserved).
use indexmap::IndexMap;
use wac_types::{are_semver_compatible, validate_target, FuncType, Interface, ItemKind, PrimitiveType, Types, ValueType, World};

fn main() {
    let names = ["f", "a:b/c", "a:b/c@0.2.0", "a:b/c@0.2.1", "a:b/c@0.3.0"];
    let mut types = Types::default();
    let f1 = types.add_func_type(FuncType { params: IndexMap::new(), result: None, is_async: false });
    let f2 = types.add_func_type(FuncType { params: IndexMap::new(), result: Some(ValueType::Primitive(PrimitiveType::U8)), is_async: false });
    let small = types.add_interface(Interface { id: None, uses: Default::default(), exports: [("x".to_string(), ItemKind::Func(f1))].into_iter().collect() });
    let big = types.add_interface(Interface { id: None, uses: Default::default(), exports: [("x".to_string(), ItemKind::Func(f1)), ("y".to_string(), ItemKind::Func(f2))].into_iter().collect() });
    let kinds = [ItemKind::Func(f1), ItemKind::Func(f2), ItemKind::Instance(small), ItemKind::Instance(big)];
    // a <= b for these kinds
    let sub = |a: ItemKind, b: ItemKind| -> bool {
        match (a, b) {
            (ItemKind::Func(x), ItemKind::Func(y)) => x == y,
            (ItemKind::Instance(x), ItemKind::Instance(y)) => x == y || (x == big && y == small),
            _ => false,
        }
    };
    // all maps with at most 2 entries
    let mut maps: Vec<Vec<(usize, usize)>> = vec![vec![]];
    for n1 in 0..names.len() { for k1 in 0..kinds.len() {
        maps.push(vec![(n1, k1)]);
        for n2 in (n1 + 1)..names.len() { for k2 in 0..kinds.len() { if (n1 + n2 + k1 + k2) % 3 == 0 { maps.push(vec![(n1, k1), (n2, k2)]); } } }
    } }
    let mk = |m: &Vec<(usize, usize)>| -> IndexMap<String, ItemKind> { m.iter().map(|(n, k)| (names[*n].to_string(), kinds[*k])).collect() };
    let (mut pairs, mut agree_ok, mut findings_semver, mut other) = (0u64, 0u64, 0u64, 0u64);
    let mut first_semver: Option<String> = None;
    for wi in maps.iter().step_by(3) {
        for ci in maps.iter().step_by(2) {
            // imports side
            for mode in 0..2 {
                let (w_imp, w_exp, c_imp, c_exp) = if mode == 0 { (mk(wi), IndexMap::new(), mk(ci), IndexMap::new()) } else { (IndexMap::new(), mk(wi), IndexMap::new(), mk(ci)) };
                let w = types.add_world(World { id: None, uses: Default::default(), imports: w_imp.clone(), exports: w_exp.clone() });
                let c = types.add_world(World { id: None, uses: Default::default(), imports: c_imp.clone(), exports: c_exp.clone() });
                let got = validate_target(&types, w, c).is_ok();
                let expect = c_imp.iter().all(|(n, k)| w_imp.get(n).map(|e| sub(e.promote(), *k)).unwrap_or(false))
                    && w_exp.iter().all(|(n, e)| c_exp.get(n).map(|k| sub(*k, e.promote())).unwrap_or(false));
                pairs += 1;
                if got == expect { if got { agree_ok += 1; } continue; }
                // classify: is some name of one side matched only up to a compatible version on the other side?
                let (have, want): (Vec<&String>, Vec<&String>) = if mode == 0 { (w_imp.keys().collect(), c_imp.keys().collect()) } else { (c_exp.keys().collect(), w_exp.keys().collect()) };
                let semver = want.iter().any(|n| !have.contains(n) && have.iter().any(|h| are_semver_compatible(h, n)));
                if semver {
                    findings_semver += 1;
                    if first_semver.is_none() { first_semver = Some(format!("world imports {:?} exports {:?}; component imports {:?} exports {:?}: stand-alone says {}, exact-name conformance says {}", w_imp.keys().collect::<Vec<_>>(), w_exp.keys().collect::<Vec<_>>(), c_imp.keys().collect::<Vec<_>>(), c_exp.keys().collect::<Vec<_>>(), got, expect)); }
                } else {
                    other += 1;
                    println!("FINDING unexplained-disagreement world imports {:?} exports {:?}; component imports {:?} exports {:?}: stand-alone validate_target says {}, the conformance relation says {}", w_imp, w_exp, c_imp, c_exp, got, expect);
                    if other > 3 { break; }
                }
            }
        }
    }
    if let Some(s) = &first_semver { println!("FINDING semver-compatible-name {findings_semver} pairs, e.g. {s}"); }
    println!("C11-BOUNDED {} {{\"bounded\": true, \"pairs\": {pairs}, \"both_conform\": {agree_ok}, \"semver_name_disagreements\": {findings_semver}, \"other_disagreements\": {other}}}", if findings_semver + other == 0 { "ok" } else { "findings" });
    std::process::exit(if findings_semver + other == 0 { 0 } else { 3 });
}
