//! BOUNDED stand-in for wac_types::validate_target (outside Verus's dialect: `continue` in for-loops, `.fold`), and the
//! "same verdict" clause of C11.  Every (world, component) pair of a small universe is checked by the REAL stand-alone
//! function and compared with TWO reference relations written from the property statement:
//!   * `semver`: imports only items the world imports at types the world's imports satisfy, exports every export of the
//!     world at a conforming type - with names looked up exactly, and failing that through a semver-compatible name
//!     (highest version), as the stand-alone check documents.  The real function must agree with it on every pair:
//!     any disagreement is a C11-BOUNDED VIOLATION.
//!   * `exact`: the same relation with exact names only - what unit U9 proves for the resolution-time check
//!     (AstResolver::validate_target).  Pairs on which the two references differ are the recorded known finding
//!     `semver-compatible-name` ("the same verdict is reached by the stand-alone check" fails for them): printed as FINDING.
//! Universe: names f, a:b/c, a:b/c@0.2.0, a:b/c@0.2.1, a:b/c@0.3.0; kinds: two function types, a small and a big instance
//! (every instance type built per name, carrying the name as its interface id as decoded packages do).
//! Exit 0 = no disagreement, 3 = only FINDING lines, 1 = violation.
use indexmap::IndexMap;
use wac_types::{are_semver_compatible, validate_target, FuncType, Interface, ItemKind, PrimitiveType, Types, ValueType, World};

#[derive(Clone, Copy, PartialEq, Eq, Debug)]
enum Kd { F1, F2, Small, Big }
const KINDS: [Kd; 4] = [Kd::F1, Kd::F2, Kd::Small, Kd::Big];
/// a <= b : an item of kind a can be used where kind b is required
fn sub(a: Kd, b: Kd) -> bool { a == b || (a == Kd::Big && b == Kd::Small) }
fn version(n: &str) -> (u64, u64, u64) { let v = n.split('@').nth(1).unwrap_or("0.0.0"); let mut it = v.split('.').map(|x| x.parse().unwrap_or(0)); (it.next().unwrap_or(0), it.next().unwrap_or(0), it.next().unwrap_or(0)) }

/// lookup of `name` among `have`: exact, else (semver mode) the highest semver-compatible name
fn lookup<'a>(have: &'a [(usize, Kd)], names: &[&str], name: &str, semver: bool) -> Option<Kd> {
    if let Some((_, k)) = have.iter().find(|(n, _)| names[*n] == name) { return Some(*k); }
    if !semver { return None; }
    have.iter().filter(|(n, _)| names[*n] != name && are_semver_compatible(names[*n], name)).max_by_key(|(n, _)| version(names[*n])).map(|(_, k)| *k)
}

fn main() {
    let names = ["f", "a:b/c", "a:b/c@0.2.0", "a:b/c@0.2.1", "a:b/c@0.3.0"];
    let mut types = Types::default();
    let f1 = types.add_func_type(FuncType { params: IndexMap::new(), result: None, is_async: false });
    let f2 = types.add_func_type(FuncType { params: IndexMap::new(), result: Some(ValueType::Primitive(PrimitiveType::U8)), is_async: false });
    // all maps with at most 2 entries
    let mut maps: Vec<Vec<(usize, Kd)>> = vec![vec![]];
    for n1 in 0..names.len() { for k1 in KINDS {
        maps.push(vec![(n1, k1)]);
        for n2 in (n1 + 1)..names.len() { for (i2, k2) in KINDS.iter().enumerate() { if (n1 + n2 + k1 as usize + i2) % 3 == 0 { maps.push(vec![(n1, k1), (n2, *k2)]); } } }
    } }
    let mut build = |types: &mut Types, m: &Vec<(usize, Kd)>| -> IndexMap<String, ItemKind> {
        m.iter().map(|(n, k)| {
            let name = names[*n];
            let kind = match k {
                Kd::F1 => ItemKind::Func(f1), Kd::F2 => ItemKind::Func(f2),
                Kd::Small | Kd::Big => {
                    let mut exports: IndexMap<String, ItemKind> = [("x".to_string(), ItemKind::Func(f1))].into_iter().collect();
                    if *k == Kd::Big { exports.insert("y".to_string(), ItemKind::Func(f2)); }
                    ItemKind::Instance(types.add_interface(Interface { id: if name.contains('/') { Some(name.to_string()) } else { None }, uses: Default::default(), exports }))
                }
            };
            (name.to_string(), kind)
        }).collect()
    };
    let (mut pairs, mut both_ok, mut finding_pairs) = (0u64, 0u64, 0u64);
    let mut first_finding: Option<String> = None;
    for wi in maps.iter().step_by(3) {
        for ci in maps.iter().step_by(2) {
            for mode in 0..2 {
                // mode 0: imports, mode 1: exports
                let empty: Vec<(usize, Kd)> = vec![];
                let (w_imp, w_exp, c_imp, c_exp) = if mode == 0 { (wi, &empty, ci, &empty) } else { (&empty, wi, &empty, ci) };
                let w = { let (i, e) = (build(&mut types, w_imp), build(&mut types, w_exp)); types.add_world(World { id: None, uses: Default::default(), imports: i, exports: e }) };
                let c = { let (i, e) = (build(&mut types, c_imp), build(&mut types, c_exp)); types.add_world(World { id: None, uses: Default::default(), imports: i, exports: e }) };
                let got = validate_target(&types, w, c).is_ok();
                let reference = |semver: bool| -> bool {
                    // every component import is offered by the world at a type that satisfies it (world item <= required)
                    c_imp.iter().all(|(n, k)| lookup(w_imp, &names, names[*n], semver).map(|e| sub(e, *k)).unwrap_or(false))
                    // every world export is exported by the component at a conforming type
                    && w_exp.iter().all(|(n, e)| lookup(c_exp, &names, names[*n], semver).map(|k| sub(k, *e)).unwrap_or(false))
                };
                let (exp_semver, exp_exact) = (reference(true), reference(false));
                pairs += 1;
                let show = || format!("world imports {:?} exports {:?}; component imports {:?} exports {:?}", w_imp.iter().map(|(n, k)| (names[*n], *k)).collect::<Vec<_>>(), w_exp.iter().map(|(n, k)| (names[*n], *k)).collect::<Vec<_>>(), c_imp.iter().map(|(n, k)| (names[*n], *k)).collect::<Vec<_>>(), c_exp.iter().map(|(n, k)| (names[*n], *k)).collect::<Vec<_>>());
                if got != exp_semver {
                    println!("C11-BOUNDED VIOLATION: stand-alone validate_target says {}, the property (names looked up semver-aware) gives {}: {}", got, exp_semver, show());
                    std::process::exit(1);
                }
                if got { both_ok += 1; }
                if exp_semver != exp_exact {
                    finding_pairs += 1;
                    if first_finding.is_none() { first_finding = Some(format!("{}: stand-alone says {}, exact-name conformance (resolution time) says {}", show(), got, exp_exact)); }
                }
            }
        }
    }
    if let Some(s) = &first_finding { println!("FINDING semver-compatible-name {finding_pairs} pairs, e.g. {s}"); }
    println!("C11-BOUNDED {} {{\"bounded\": true, \"pairs\": {pairs}, \"conforming\": {both_ok}, \"pairs_where_exact_and_semver_lookup_differ\": {finding_pairs}}}", if finding_pairs == 0 { "ok" } else { "findings" });
    std::process::exit(if finding_pairs == 0 { 0 } else { 3 });
}
