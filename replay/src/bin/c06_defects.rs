//! Replays of the C06 graph-API defects found while writing the contracts (each is a short operation history
//! on the real wac-graph crate).  Prints one line per scenario; exit 1 if any scenario violates C06.
use std::panic::{catch_unwind, AssertUnwindSafe};
use wac_graph::{types::{Package, Type, ValueType, DefinedType, PrimitiveType, ItemKind}, CompositionGraph, EncodeOptions};

fn pkg(graph: &mut CompositionGraph, name: &str, wat_src: &str) -> wac_graph::PackageId {
    let bytes = wat::parse_str(wat_src).unwrap();
    let p = Package::from_bytes(name, None, bytes, graph.types_mut()).unwrap();
    graph.register_package(p).unwrap()
}

fn main() {
    let mut bad = 0;
    let mut check = |name: &str, f: &mut dyn FnMut() -> Result<(), String>| {
        match catch_unwind(AssertUnwindSafe(|| f())) {
            Ok(Ok(())) => println!("ok        {name}"),
            Ok(Err(e)) => { println!("VIOLATION {name}: {e}"); bad += 1; }
            Err(p) => {
                let msg = p.downcast_ref::<String>().cloned().or_else(|| p.downcast_ref::<&str>().map(|s| s.to_string())).unwrap_or_default();
                println!("VIOLATION {name}: panicked: {msg}"); bad += 1;
            }
        }
    };
    std::panic::set_hook(Box::new(|_| {}));

    // 1. an argument source is removed: the argument must become unsatisfied again
    check("remove_node of an argument source leaves the argument satisfied", &mut || {
        let mut g = CompositionGraph::new();
        let p = pkg(&mut g, "t:a", r#"(component (import "f" (func)) (export "g" (func 0)))"#);
        let inst = g.instantiate(p);
        let f_kind = { let w = &g.types()[g[p].ty()]; w.imports["f"] };
        let imp = g.import("f2", f_kind).map_err(|e| e.to_string())?;
        g.set_instantiation_argument(inst, "f", imp).map_err(|e| e.to_string())?;
        g.remove_node(imp);
        if g.get_instantiation_arguments(inst).count() != 0 { return Err("argument still listed".into()); }
        if !g.imports().any(|(n, _, _)| n == "f") { return Err("imports() does not list the now unsatisfied `f`".into()); }
        g.encode(EncodeOptions::default()).map_err(|e| format!("encode failed: {e:#}"))?;
        let imp2 = g.import("f3", f_kind).map_err(|e| e.to_string())?;
        g.set_instantiation_argument(inst, "f", imp2).map_err(|e| e.to_string())?;
        Ok(())
    });
    // 2. a node exported under two names: unexport / remove_node must free both names
    check("unexport leaves an earlier export name of the node", &mut || {
        let mut g = CompositionGraph::new();
        let p = pkg(&mut g, "t:a", r#"(component (import "f" (func)) (export "g" (func 0)))"#);
        let inst = g.instantiate(p);
        g.export(inst, "x").map_err(|e| e.to_string())?;
        g.export(inst, "y").map_err(|e| e.to_string())?;
        g.unexport(inst).map_err(|e| e.to_string())?;
        if g.get_export("x").is_some() || g.get_export("y").is_some() { return Err("an export name still maps to the unexported node".into()); }
        Ok(())
    });
    check("remove_node leaves an earlier export name of the node", &mut || {
        let mut g = CompositionGraph::new();
        let p = pkg(&mut g, "t:a", r#"(component (import "f" (func)) (export "g" (func 0)))"#);
        let inst = g.instantiate(p);
        g.export(inst, "x").map_err(|e| e.to_string())?;
        g.export(inst, "y").map_err(|e| e.to_string())?;
        g.remove_node(inst);
        if g.get_export("x").is_some() || g.get_export("y").is_some() { return Err("an export name maps to a removed node".into()); }
        g.encode(EncodeOptions::default()).map_err(|e| format!("encode failed: {e:#}"))?;
        Ok(())
    });
    // 3. dependants are removed exactly once, whatever the definition order
    check("remove_node removes a shared dependant twice", &mut || {
        let mut g = CompositionGraph::new();
        let a = g.types_mut().add_defined_type(DefinedType::Alias(ValueType::Primitive(PrimitiveType::U8)));
        let b = g.types_mut().add_defined_type(DefinedType::List(ValueType::Defined(a)));
        let c = g.types_mut().add_defined_type(DefinedType::Tuple(vec![ValueType::Defined(a), ValueType::Defined(b)]));
        let na = g.define_type("a", Type::Value(ValueType::Defined(a))).map_err(|e| e.to_string())?;
        let _nc = g.define_type("c", Type::Value(ValueType::Defined(c))).map_err(|e| e.to_string())?;
        let _nb = g.define_type("b", Type::Value(ValueType::Defined(b))).map_err(|e| e.to_string())?;
        g.remove_node(na);
        if g.get_export("a").is_some() || g.get_export("b").is_some() || g.get_export("c").is_some() { return Err("dependants survive".into()); }
        Ok(())
    });
    // 4. unregistering a package whose node satisfied an argument of another package's instantiation
    check("unregister_package leaves arguments of other instantiations satisfied", &mut || {
        let mut g = CompositionGraph::new();
        let pa = pkg(&mut g, "t:a", r#"(component (import "f" (func)) (export "g" (func 0)))"#);
        let pb = pkg(&mut g, "t:b", r#"(component (import "h" (func)) (export "k" (func 0)))"#);
        let ia = g.instantiate(pa);
        let ib = g.instantiate(pb);
        let k = g.alias_instance_export(ib, "k").map_err(|e| e.to_string())?;
        g.set_instantiation_argument(ia, "f", k).map_err(|e| e.to_string())?;
        g.unregister_package(pb);
        if g.get_instantiation_arguments(ia).count() != 0 { return Err("argument still listed".into()); }
        if !g.imports().any(|(n, _, _)| n == "f") { return Err("imports() does not list the now unsatisfied `f`".into()); }
        g.encode(EncodeOptions::default()).map_err(|e| format!("encode failed: {e:#}"))?;
        Ok(())
    });
    let _ = ItemKind::Value(ValueType::Primitive(PrimitiveType::U8));
    std::process::exit(if bad > 0 { 1 } else { 0 });
}
