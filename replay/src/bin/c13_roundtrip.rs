//! BOUNDED check of C13 (the printer is `write!`-macro code over a `fmt::Write`: outside Verus's dialect, and the round
//! trip needs the parser as well - no contract within reach, see DESIGN.md): for grammar-generated documents (seeded,
//! with randomised layout, comments, `%` escapes, string names, every argument form incl. `...` in any position, static
//! methods, constructors, use renames, include-with lists, targets, versions) and for every .wac file shipped in the
//! repository that the parser accepts,
//!     parse(src) = t1;  print(t1) = s1;  parse(s1) = t2   must succeed with t2 == t1 up to source positions and
//!     doc-comment line splitting;  print(t2) = s2  must equal s1 byte for byte.
//! Trees are compared through their serde serialisation with every `span` removed.
//! Exit 0 = agreement, 1 = a disagreeing document is printed, 2 = the generator produced an unparsable document.
//! usage: c13_roundtrip [generated_documents] [seed]
use serde_json::Value;
use wac_parser::{Document, DocumentPrinter};

struct Rng(u64);
impl Rng {
    fn next(&mut self) -> u64 { self.0 = self.0.wrapping_mul(6364136223846793005).wrapping_add(1442695040888963407); (self.0 >> 33) as u64 }
    fn below(&mut self, n: usize) -> usize { (self.next() % n as u64) as usize }
    fn chance(&mut self, pct: usize) -> bool { self.below(100) < pct }
    fn pick<'a>(&mut self, xs: &[&'a str]) -> &'a str { xs[self.below(xs.len())] }
}

const IDS: [&str; 8] = ["a", "foo", "foo-bar", "x1", "%interface", "%use", "%new", "b2-c3"];
const PRIMS: [&str; 13] = ["u8", "s8", "u16", "s16", "u32", "s32", "u64", "s64", "f32", "f64", "char", "bool", "string"];

struct Gen { r: Rng, n: usize }
impl Gen {
    fn id(&mut self) -> String { let r = &mut self.r; r.pick(&IDS).to_string() }
    fn fresh(&mut self, p: &str) -> String { self.n += 1; format!("{p}{}", ["a", "b", "c", "d", "e", "f", "g", "h", "i", "j", "k", "l", "m", "n", "o", "p", "q", "r", "s", "t", "u", "v", "w", "x", "y", "z"][self.n % 26].to_string() + &format!("{}", self.n / 26 + 1)) }
    fn ws(&mut self) -> String {
        match self.r.below(12) { 0 => "\n".into(), 1 => "  ".into(), 2 => " /* c */ ".into(), 3 => " // line\n".into(), 4 => "\t".into(), 5 => " /* a /* nested */ b */ ".into(), _ => " ".into() }
    }
    fn sep(&mut self, items: Vec<String>) -> String {
        let mut s = String::new();
        for (i, it) in items.iter().enumerate() { if i > 0 { s.push(','); s.push_str(&self.ws()); } s.push_str(it); }
        if !items.is_empty() && self.r.chance(30) { s.push(','); }
        s
    }
    fn version(&mut self) -> String { let r = &mut self.r; r.pick(&["1.0.0", "0.2.1", "2.3.4-rc.1", "1.2.3+build.5", "0.0.1"]).to_string() }
    fn pkg_name(&mut self, versioned: bool) -> String {
        let mut s = format!("{}:{}", self.id(), self.id());
        if self.r.chance(20) { s.push_str(&format!(":{}", self.id())); }
        if versioned && self.r.chance(40) { s.push('@'); s.push_str(&self.version()); }
        s
    }
    fn pkg_path(&mut self) -> String {
        let mut s = format!("{}:{}/{}", self.id(), self.id(), self.id());
        if self.r.chance(20) { s.push_str(&format!("/{}", self.id())); }
        if self.r.chance(40) { s.push('@'); s.push_str(&self.version()); }
        s
    }
    fn ty(&mut self, depth: usize) -> String {
        let k = if depth == 0 { self.r.below(2) } else { self.r.below(9) };
        match k {
            0 => self.r.pick(&PRIMS).to_string(),
            1 => self.id(),
            2 => { let n = 1 + self.r.below(3); let items = (0..n).map(|_| self.ty(depth - 1)).collect(); format!("tuple<{}>", self.sep(items)) }
            3 => format!("list<{}>", self.ty(depth - 1)),
            4 => format!("option<{}>", self.ty(depth - 1)),
            5 => match self.r.below(4) { 0 => "result".into(), 1 => format!("result<{}>", self.ty(depth - 1)), 2 => format!("result<_, {}>", self.ty(depth - 1)), _ => format!("result<{}, {}>", self.ty(depth - 1), self.ty(depth - 1)) },
            6 => format!("borrow<{}>", self.id()),
            _ => self.r.pick(&PRIMS).to_string(),
        }
    }
    fn named_types(&mut self, max: usize) -> Vec<String> {
        let n = self.r.below(max + 1);
        (0..n).map(|i| format!("p{i}:{}{}", self.ws(), self.ty(2))).collect()
    }
    fn func_type(&mut self) -> String {
        let params = self.named_types(3);
        let mut s = format!("func({})", self.sep(params));
        // (the documented named-results form `-> (a: u8, b: string)` is rejected by the parser: see the C12 finding)
        match self.r.below(2) { 0 => {}, _ => s.push_str(&format!(" -> {}", self.ty(2))) }
        s
    }
    fn docs(&mut self) -> String {
        match self.r.below(12) { 0 => "/// a doc comment\n".into(), 1 => "/** block doc */\n".into(), 2 => "/// first\n/// second\n".into(),
            // empty comments and blank lines inside comments are part of the text
            3 => "///\n".into(), 4 => "/** a\n\n   b */\n".into(), 5 => "/***/\n".into(), 6 => "/// x\n///\n///   \n/// y\n".into(), 7 => "/**\n * star\n *\n */\n".into(), _ => String::new() }
    }
    fn type_decl(&mut self) -> String {
        let d = self.docs();
        let name = self.fresh("t");
        d + &match self.r.below(5) {
            0 => { let cases: Vec<String> = (0..1 + self.r.below(3)).map(|i| if self.r.chance(50) { format!("c{i}({})", self.ty(1)) } else { format!("c{i}") }).collect(); format!("variant {name} {{ {} }}", self.sep(cases)) }
            1 => { let mut fs = self.named_types(3); if fs.is_empty() { fs.push("f0: u8".into()); } format!("record {name} {{ {} }}", self.sep(fs)) }
            2 => { let ids: Vec<String> = (0..1 + self.r.below(3)).map(|i| format!("f{i}")).collect(); format!("flags {name} {{ {} }}", self.sep(ids)) }
            3 => { let ids: Vec<String> = (0..1 + self.r.below(3)).map(|i| format!("e{i}")).collect(); format!("enum {name} {{ {} }}", self.sep(ids)) }
            _ => if self.r.chance(30) { format!("type {name} = {};", self.func_type()) } else { format!("type {name} = {};", self.ty(2)) },
        }
    }
    fn resource(&mut self) -> String {
        let name = self.fresh("r");
        if self.r.chance(30) { return format!("resource {name};"); }
        let mut items = vec![];
        if self.r.chance(60) { let ps = self.named_types(2); items.push(format!("constructor({});", self.sep(ps))); }
        for i in 0..self.r.below(3) { let st = if self.r.chance(40) { "static " } else { "" }; items.push(format!("{}m{i}: {st}{};", self.docs(), self.func_type())); }
        format!("resource {name} {{ {} }}", items.join(" "))
    }
    fn use_type(&mut self) -> String {
        let path = if self.r.chance(50) { self.pkg_path() } else { self.id() };
        let items: Vec<String> = (0..1 + self.r.below(3)).map(|_| if self.r.chance(40) { format!("{} as {}", self.id(), self.id()) } else { self.id() }).collect();
        format!("use {path}.{{{}}};", self.sep(items))
    }
    fn interface_items(&mut self) -> String {
        let mut s = String::new();
        for _ in 0..self.r.below(5) {
            s.push_str(&self.ws());
            let it = match self.r.below(5) { 0 => self.use_type(), 1 => self.type_decl(), 2 => self.resource(), 3 => format!("{}{}: {};", self.docs(), self.fresh("f"), self.func_type()), _ => format!("{}: {};", self.fresh("f"), self.id()) };
            s.push_str(&it);
        }
        s
    }
    fn extern_type(&mut self) -> String {
        match self.r.below(3) { 0 => self.func_type(), 1 => format!("interface {{{} }}", self.interface_items()), _ => self.id() }
    }
    fn world_items(&mut self) -> String {
        let mut s = String::new();
        for _ in 0..self.r.below(6) {
            s.push_str(&self.ws());
            let it = match self.r.below(7) {
                0 => self.use_type(), 1 => self.type_decl(), 2 => self.resource(),
                3 | 4 => { let kw = if self.r.chance(50) { "import" } else { "export" }; let p = match self.r.below(3) { 0 => format!("{}: {}", self.fresh("w"), self.extern_type()), 1 => self.pkg_path(), _ => self.id() }; format!("{}{kw} {p};", self.docs()) }
                _ => { let r = if self.r.chance(50) { self.pkg_path() } else { self.id() }; if self.r.chance(40) { let items: Vec<String> = (0..1 + self.r.below(2)).map(|_| format!("{} as {}", self.id(), self.id())).collect(); format!("include {r} with {{ {} }};", self.sep(items)) } else { format!("include {r};") } }
            };
            s.push_str(&it);
        }
        s
    }
    fn string(&mut self) -> String { let r = &mut self.r; r.pick(&["\"foo\"", "\"a:b/c@1.0.0\"", "\"with space\"", "\"[method]x.y\"", "\"é\"", "\"two\nlines\"", "\"  lead\n\n  trail  \""]).to_string() }   // a string literal may span lines: its text is copied, not re-indented
    fn expr(&mut self, depth: usize) -> String {
        let mut s = match if depth == 0 { 2 } else { self.r.below(4) } {
            0 | 1 => {
                let n = self.r.below(4);
                let mut args: Vec<String> = vec![];
                for _ in 0..n {
                    args.push(match self.r.below(5) { 0 => self.id(), 1 => format!("...{}", self.id()), 2 => format!("{}: {}", self.id(), self.expr(depth - 1)), 3 => format!("{}: {}", self.string(), self.expr(depth - 1)), _ => "...".into() });
                }
                let body = if args.is_empty() { if self.r.chance(30) { " ... ".to_string() } else { String::new() } } else { format!(" {} ", self.sep(args)) };
                format!("new {} {{{}}}", self.pkg_name(true), body)
            }
            3 => format!("({})", self.expr(depth - 1)),
            _ => self.id(),
        };
        for _ in 0..self.r.below(3) { if self.r.chance(50) { s.push_str(&format!(".{}", self.id())); } else { s.push_str(&format!("[{}]", self.string())); } }
        s
    }
    fn statement(&mut self) -> String {
        let d = self.docs();
        d + &match self.r.below(8) {
            0 | 1 => {
                let name = self.fresh("i");
                let asn = match self.r.below(3) { 0 => String::new(), 1 => format!(" as {}", self.id()), _ => format!(" as {}", self.string()) };
                let ty = match self.r.below(4) { 0 => self.pkg_path(), 1 => self.func_type(), 2 => format!("interface {{{} }}", self.interface_items()), _ => self.id() };
                format!("import {name}{asn}:{}{ty};", self.ws())
            }
            2 => format!("interface {} {{{} }}", self.fresh("k"), self.interface_items()),
            3 => format!("world {} {{{} }}", self.fresh("w"), self.world_items()),
            4 => self.type_decl(),
            5 | 6 => format!("let {}{}={}{};", self.fresh("v"), self.ws(), self.ws(), self.expr(2)),
            _ => { let e = self.expr(2); match self.r.below(4) { 0 => format!("export {e};"), 1 => format!("export {e}...;"), 2 => format!("export {e} as {};", self.id()), _ => format!("export {e} as {};", self.string()) } }
        }
    }
    fn document(&mut self) -> String {
        self.n = 0;
        let mut s = self.docs();
        s.push_str(&format!("package {}", self.pkg_name(true)));
        if self.r.chance(40) { s.push_str(&format!(" targets {}", self.pkg_path())); }
        s.push_str(";\n");
        for _ in 0..self.r.below(6) { s.push_str(&self.ws()); s.push_str(&self.statement()); s.push('\n'); }
        s
    }
}

fn strip(v: &mut Value) {
    match v {
        Value::Object(m) if m.len() == 2 && m.contains_key("offset") && m.contains_key("length") => { *v = Value::Null; }
        Value::Object(m) => {
            m.remove("span");
            // doc comments: compare the text, not how it is split into lines / comments
            if let Some(Value::Array(docs)) = m.get_mut("docs") {
                let text: Vec<String> = docs.iter().flat_map(|d| d.get("comment").and_then(|c| c.as_str()).unwrap_or("").lines().map(|l| l.trim().to_string()).chain(d.get("comment").and_then(|c| c.as_str()).filter(|c| c.is_empty()).map(|_| String::new())).collect::<Vec<_>>()).collect();
                *docs = vec![Value::String(text.join("\n"))];
            }
            for (_, x) in m.iter_mut() { strip(x); }
        }
        Value::Array(a) => for x in a.iter_mut() { strip(x); },
        _ => {}
    }
}

/// every leaf token of the tree (an object with a string-valued `string` and a `span`: identifiers, string literals,
/// package names and paths) together with the source text at its span: `%` escapes and quotes live only there
fn leaf_texts(v: &Value, src: &str, out: &mut Vec<String>) {
    match v {
        Value::Object(m) => {
            if let (Some(Value::String(_)), Some(Value::Object(sp))) = (m.get("string"), m.get("span")) {
                if let (Some(o), Some(l)) = (sp.get("offset").and_then(|x| x.as_u64()), sp.get("length").and_then(|x| x.as_u64())) {
                    out.push(src.get(o as usize..(o + l) as usize).unwrap_or("<span outside the source>").to_string());
                }
            }
            for (_, x) in m { leaf_texts(x, src, out); }
        }
        Value::Array(a) => for x in a { leaf_texts(x, src, out); },
        _ => {}
    }
}

fn first_diff(a: &Value, b: &Value, path: String) -> String {
    match (a, b) {
        (Value::Object(x), Value::Object(y)) => {
            for (k, v) in x { match y.get(k) { None => return format!("{path}.{k} (missing)"), Some(w) => if v != w { return first_diff(v, w, format!("{path}.{k}")); } } }
            format!("{path} (extra keys)")
        }
        (Value::Array(x), Value::Array(y)) => {
            if x.len() != y.len() { return format!("{path} (length {} vs {})", x.len(), y.len()); }
            for (i, (v, w)) in x.iter().zip(y.iter()).enumerate() { if v != w { return first_diff(v, w, format!("{path}[{i}]")); } }
            path
        }
        _ => format!("{path}: {a} vs {b}"),
    }
}

fn roundtrip(src: &str, origin: &str) -> Result<bool, String> {
    let t1 = match Document::parse(src) { Ok(d) => d, Err(_) => return Ok(false) };
    let mut s1 = String::new();
    DocumentPrinter::new(&mut s1, src, None).document(&t1).map_err(|e| format!("printing failed: {e}"))?;
    let t2 = Document::parse(&s1).map_err(|e| format!("the printed text does not parse ({e}); {origin}\n--- source\n{src}\n--- printed\n{s1}"))?;
    let (mut j1, mut j2) = (serde_json::to_value(&t1).unwrap(), serde_json::to_value(&t2).unwrap());
    let (mut l1, mut l2) = (vec![], vec![]);
    leaf_texts(&j1, src, &mut l1); leaf_texts(&j2, &s1, &mut l2);
    if l1 != l2 {
        let k = l1.iter().zip(l2.iter()).position(|(a, b)| a != b).unwrap_or(l1.len().min(l2.len()));
        return Err(format!("a token is altered by printing: `{}` became `{}`; {origin}\n--- source\n{src}\n--- printed\n{s1}", l1.get(k).cloned().unwrap_or_default(), l2.get(k).cloned().unwrap_or_default()));
    }
    strip(&mut j1); strip(&mut j2);
    if j1 != j2 { return Err(format!("the printed text parses to a different tree (first difference at {}); {origin}\n--- source\n{src}\n--- printed\n{s1}", first_diff(&j1, &j2, String::new()))); }
    let mut s2 = String::new();
    DocumentPrinter::new(&mut s2, &s1, None).document(&t2).map_err(|e| format!("printing failed: {e}"))?;
    if s2 != s1 { return Err(format!("printing is not idempotent; {origin}\n--- first print\n{s1}\n--- second print\n{s2}")); }
    Ok(true)
}

/// line endings are layout: the same document with CRLF line endings parses to the same tree (and so prints the same)
fn crlf_same(src: &str, origin: &str) -> Result<(), String> {
    if src.contains('\r') { return Ok(()); }
    // (line endings INSIDE a string literal are part of its value and stay as they are; the generator's comments hold no quotes)
    let mut crlf = String::with_capacity(src.len() + 64);
    let mut in_string = false;
    for c in src.chars() { if c == '"' { in_string = !in_string; } if c == '\n' && !in_string { crlf.push('\r'); } crlf.push(c); }
    let (Ok(t1), Ok(t2)) = (Document::parse(src), Document::parse(&crlf)) else { return Err(format!("the document is accepted with LF line endings but not with CRLF line endings; {origin}\n{src}")) };
    let (mut j1, mut j2) = (serde_json::to_value(&t1).unwrap(), serde_json::to_value(&t2).unwrap());
    strip(&mut j1); strip(&mut j2);
    if j1 != j2 { return Err(format!("with CRLF line endings the document parses to a different tree (first difference at {}): a construct is dropped before printing; {origin}\n--- source (LF)\n{src}", first_diff(&j1, &j2, String::new()))); }
    Ok(())
}

fn wac_files(dir: &std::path::Path, out: &mut Vec<std::path::PathBuf>) {
    if let Ok(rd) = std::fs::read_dir(dir) {
        for e in rd.flatten() {
            let p = e.path();
            if p.is_dir() { if p.file_name().map(|n| n != "target" && n != ".git").unwrap_or(true) { wac_files(&p, out); } }
            else if p.extension().map(|x| x == "wac").unwrap_or(false) { out.push(p); }
        }
    }
}

fn main() {
    let n: usize = std::env::args().nth(1).and_then(|s| s.parse().ok()).unwrap_or(3000);
    let seed: u64 = std::env::args().nth(2).and_then(|s| s.parse().ok()).unwrap_or(0);
    let (mut files_ok, mut files_rejected) = (0u64, 0u64);
    let mut files = vec![]; wac_files(std::path::Path::new("/repo"), &mut files); files.sort();
    for f in &files {
        let src = std::fs::read_to_string(f).unwrap_or_default();
        match roundtrip(&src, &format!("file {}", f.display())) { Ok(true) => files_ok += 1, Ok(false) => files_rejected += 1, Err(e) => { println!("C13-BOUNDED VIOLATION: {e}"); std::process::exit(1); } }
    }
    let fixed = [
        "package a:b targets c:d/w@1.0.0;\n",
        "package a:b;\nlet x = new c:d { ..., c };\n",
        "package a:b;\nlet x = new c:d { ..., ...c, \"s\": (d).e[\"f\"], ... };\n",
        "package a:b@1.2.3-rc.1+b;\nexport new c:d { }...;\n",
        "package a:b;\ninterface i { resource r { constructor(a: u8); m: static func(); n: func() -> tuple<u8, string>; } }\n",
        "package a:b;\nworld w { include c:d/e@0.1.0 with { a as b, c as d, }; use i.{t as u, v}; }\n",
    ];
    let mut g = Gen { r: Rng(seed.wrapping_mul(7919).wrapping_add(12345)), n: 0 };
    let (mut generated, mut nontrivial) = (0u64, std::collections::BTreeSet::new());
    let mut samples = vec![];
    for i in 0..(n + fixed.len()) {
        let src = if i < fixed.len() { fixed[i].to_string() } else { g.document() };
        match roundtrip(&src, &format!("generated document #{i} (seed {seed})")) {
            Ok(true) => { if let Err(e) = crlf_same(&src, &format!("generated document #{i} (seed {seed})")) { println!("C13-BOUNDED VIOLATION: {e}"); std::process::exit(1); }
                generated += 1; if src.len() > 40 { nontrivial.insert(src.clone()); } if samples.len() < 2 && i % 501 == 7 { samples.push(src.replace('\n', " ")); } }
            Ok(false) => { println!("C13-ROUNDTRIP the generator produced a document the parser rejects: {:?}\n{src}", Document::parse(&src).err().map(|e| e.to_string())); std::process::exit(2); }
            Err(e) => { println!("C13-BOUNDED VIOLATION: {e}"); std::process::exit(1); }
        }
    }
    if samples.is_empty() { samples.push(fixed[2].replace('\n', " ")); }
    println!("C13-ROUNDTRIP ok {{\"bounded\": true, \"evaluations\": {}, \"distinct_nontrivial\": {}, \"generated_documents\": {generated}, \"repository_wac_files_round_tripped\": {files_ok}, \"repository_wac_files_rejected_by_the_parser\": {files_rejected}, \"seed\": {seed}, \"samples\": {:?}}}", generated + files_ok, nontrivial.len() as u64 + files_ok, samples);
}
