//! BOUNDED check of C03 (the encoder's resolve_imports / encode_imports and CompositionGraph::imports are closure- and
//! builder-heavy: outside Verus's dialect; the naming core they call, TypeAggregator::aggregate, is proved in unit U5).
//! Small compositions are built through the REAL graph API in every node-creation order, encoded by the REAL encoder,
//! and the output component is decoded again (wac_types::Package::from_bytes); its imports and exports are compared with
//! what the property statement implies:
//!   * every explicit import under its name; one import per distinct unsatisfied-argument name, arguments on the same
//!     semver track sharing ONE import named for the highest version whose type offers the union of what they need;
//!   * exports exactly the designated names;
//!   * the same answer as graph.imports() (group by group) and for every creation order;
//!   * conflicting requirements (same export, different function type; an explicit import and an implicit one of the
//!     same name) are an EncodeError - never a panic.
//! Universe: packages PA (a:b/c@0.2.0 {f}), PB (a:b/c@0.2.1 {f,g}), PC (a:b/c@0.3.0 {f}, x: func), PD (a:b/c@0.2.0 {f: F2}),
//! PE (a:b/c@0.2.1 {g}, x: func), PF (a:b/c@0.21.0 {f,g}: another track, textually prefixed by `a:b/c@0.2`);
//! up to MAX instantiations of distinct packages in every order; explicit import none | a:b/c@0.2.1 {f,g} | a:b/c@0.2.0 {f}
//! | y: func (y optionally passed as PC's argument x).
//! Exit 0 = agreement, 1 = a disagreeing composition is printed.   usage: c03_interface [max_instantiations]
use std::collections::{BTreeMap, BTreeSet};
use wac_graph::{CompositionGraph, EncodeOptions, NodeId};
use wac_types::{FuncType, Interface, ItemKind, Package, PrimitiveType, Types, ValueType};

#[derive(Clone, Debug, PartialEq, Eq, PartialOrd, Ord)]
enum Ty { Func, Inst(BTreeMap<String, u8>) }   // instance: export -> 1 (func()) | 2 (func() -> u8)

fn pkg_wat(imports: &[(&str, &[(&str, u8)])], func_imports: &[&str]) -> Vec<u8> {
    let mut s = String::from("(component\n");
    for (n, ex) in imports {
        s.push_str(&format!("  (import \"{n}\" (instance"));
        for (e, k) in ex.iter() { s.push_str(&format!(" (export \"{e}\" (func{}))", if *k == 2 { " (result u8)" } else { "" })); }
        s.push_str("))\n");
    }
    for n in func_imports { s.push_str(&format!("  (import \"{n}\" (func))\n")); }
    s.push_str(r#"  (core module $m (func (export "run")))
  (core instance $i (instantiate $m))
  (func $run (canon lift (core func $i "run")))
  (export "run" (func $run))
)"#);
    wat::parse_str(&s).unwrap_or_else(|e| panic!("{e}\n{s}"))
}

const VERS: [&str; 3] = ["a:b/c@0.2.0", "a:b/c@0.2.1", "a:b/c@0.3.0"];
fn group(n: &str) -> &str { match n { "a:b/c@0.2.0" | "a:b/c@0.2.1" => "a:b/c@0.2", other => other } }

/// (package name, instance imports, func imports)
fn universe() -> Vec<(&'static str, Vec<(&'static str, Vec<(&'static str, u8)>)>, Vec<&'static str>)> {
    vec![
        ("t:pa", vec![("a:b/c@0.2.0", vec![("f", 1)])], vec![]),
        ("t:pb", vec![("a:b/c@0.2.1", vec![("f", 1), ("g", 1)])], vec![]),
        ("t:pc", vec![("a:b/c@0.3.0", vec![("f", 1)])], vec!["x"]),
        ("t:pd", vec![("a:b/c@0.2.0", vec![("f", 2)])], vec![]),
        ("t:pe", vec![("a:b/c@0.2.1", vec![("g", 1)])], vec!["x"]),
        // a different track whose name has another track's key as a textual prefix (0.2 / 0.21)
        ("t:pf", vec![("a:b/c@0.21.0", vec![("f", 1), ("g", 1)])], vec![]),
    ]
}

fn permutations(items: &[usize]) -> Vec<Vec<usize>> {
    if items.len() <= 1 { return vec![items.to_vec()]; }
    let mut out = vec![];
    for i in 0..items.len() { let mut rest = items.to_vec(); let x = rest.remove(i); for mut p in permutations(&rest) { p.insert(0, x); out.push(p); } }
    out
}

fn describe(types: &Types, k: ItemKind) -> Option<Ty> {
    match k {
        ItemKind::Func(_) => Some(Ty::Func),
        ItemKind::Instance(id) => {
            let mut m = BTreeMap::new();
            for (n, e) in &types[id].exports { match e { ItemKind::Func(f) => { m.insert(n.clone(), if types[*f].result.is_some() { 2 } else { 1 }); } _ => return None } }
            Some(Ty::Inst(m))
        }
        _ => None,
    }
}

fn main() {
    let maxi: usize = std::env::args().nth(1).and_then(|s| s.parse().ok()).unwrap_or(3);
    let uni = universe();
    let (mut comps, mut encoded, mut rejected) = (0u64, 0u64, 0u64);
    for mask in 1u32..(1 << uni.len()) {
        if mask.count_ones() as usize > maxi { continue; }
        let chosen: Vec<usize> = (0..uni.len()).filter(|i| mask & (1 << i) != 0).collect();
        for explicit in 0..5 {
            // 0 none, 1 a:b/c@0.2.1 {f,g}, 2 a:b/c@0.2.0 {f}, 3 y: func (unused), 4 y: func passed as PC's x
            if explicit == 4 && !chosen.contains(&2) { continue; }
            let mut first: Option<(BTreeMap<String, Ty>, BTreeSet<String>)> = None;
            for order in permutations(&chosen) {
                for explicit_first in [false, true] {
                    if explicit == 0 && explicit_first { continue; }
                    if explicit == 4 && explicit_first { /* the import must exist before it is passed: same as !explicit_first below */ }
                    comps += 1;
                    let mut g = CompositionGraph::new();
                    let mut explicit_node: Option<NodeId> = None;
                    let mut add_explicit = |g: &mut CompositionGraph| -> NodeId {
                        match explicit {
                            1 | 2 => {
                                let f = g.types_mut().add_func_type(FuncType { params: Default::default(), result: None, is_async: false });
                                let (name, ex): (&str, Vec<&str>) = if explicit == 1 { (VERS[1], vec!["f", "g"]) } else { (VERS[0], vec!["f"]) };
                                let iface = g.types_mut().add_interface(Interface { id: Some(name.to_string()), uses: Default::default(),
                                    exports: ex.iter().map(|e| (e.to_string(), ItemKind::Func(f))).collect() });
                                g.import(name, ItemKind::Instance(iface)).unwrap()
                            }
                            _ => {
                                let f = g.types_mut().add_func_type(FuncType { params: Default::default(), result: None, is_async: false });
                                g.import("y", ItemKind::Func(f)).unwrap()
                            }
                        }
                    };
                    if explicit != 0 && explicit_first { explicit_node = Some(add_explicit(&mut g)); }
                    let mut designated = BTreeSet::new();
                    let mut insts = vec![];
                    for (k, pi) in order.iter().enumerate() {
                        let (pname, iimps, fimps) = &uni[*pi];
                        let iimps_ref: Vec<(&str, &[(&str, u8)])> = iimps.iter().map(|(n, e)| (*n, e.as_slice())).collect();
                        let pkg = Package::from_bytes(pname, None, pkg_wat(&iimps_ref, fimps), g.types_mut()).unwrap();
                        let pid = g.register_package(pkg).unwrap();
                        let inst = g.instantiate(pid);
                        insts.push((*pi, inst));
                        let run = g.alias_instance_export(inst, "run").unwrap();
                        let name = format!("run-{}", ["a", "b", "c", "d", "e", "f"][*pi]);
                        g.export(run, &name).unwrap();
                        designated.insert(name);
                        // one node designated under a second name as well
                        if *pi == chosen[0] { let again = format!("again-{}", ["a", "b", "c", "d", "e", "f"][*pi]); g.export(run, &again).unwrap(); designated.insert(again); }
                        let _ = k;
                    }
                    if explicit != 0 && !explicit_first { explicit_node = Some(add_explicit(&mut g)); }
                    if explicit == 4 {
                        let pc = insts.iter().find(|(pi, _)| *pi == 2).unwrap().1;
                        g.set_instantiation_argument(pc, "x", explicit_node.unwrap()).unwrap();
                    }
                    // ---- what the property statement implies
                    let mut reqs: Vec<(String, Ty, bool)> = vec![];   // (name, type, explicit)
                    for (pi, _) in &insts {
                        let (_, iimps, fimps) = &uni[*pi];
                        for (n, ex) in iimps { reqs.push((n.to_string(), Ty::Inst(ex.iter().map(|(e, k)| (e.to_string(), *k)).collect()), false)); }
                        for n in fimps { if !(explicit == 4 && *n == "x" && *pi == 2) { reqs.push((n.to_string(), Ty::Func, false)); } }
                    }
                    match explicit {
                        1 => reqs.push((VERS[1].to_string(), Ty::Inst([("f".to_string(), 1), ("g".to_string(), 1)].into_iter().collect()), true)),
                        2 => reqs.push((VERS[0].to_string(), Ty::Inst([("f".to_string(), 1)].into_iter().collect()), true)),
                        3 | 4 => reqs.push(("y".to_string(), Ty::Func, true)),
                        _ => {}
                    }
                    let mut faults: Vec<&str> = vec![];
                    for (n, _t, ex) in &reqs {
                        if *ex && reqs.iter().any(|(m, _, e2)| !*e2 && m == n) { faults.push("ImplicitImportConflict"); break; }
                    }
                    let mut m: BTreeMap<String, (String, Ty)> = BTreeMap::new();
                    for (n, t, _) in &reqs {
                        let gk = group(n).to_string();
                        match m.get(&gk).cloned() {
                            None => { m.insert(gk, (n.clone(), t.clone())); }
                            Some((cn, ct)) => {
                                let merged = match (&ct, t) {
                                    (Ty::Func, Ty::Func) => Ty::Func,
                                    (Ty::Inst(a), Ty::Inst(b)) => {
                                        let mut u = a.clone();
                                        for (e, k) in b { if let Some(k0) = u.get(e) { if k0 != k && !faults.contains(&"ImportTypeMergeConflict") { faults.push("ImportTypeMergeConflict"); } } u.insert(e.clone(), *k); }
                                        Ty::Inst(u)
                                    }
                                    _ => { if !faults.contains(&"ImportTypeMergeConflict") { faults.push("ImportTypeMergeConflict"); } ct.clone() }
                                };
                                m.insert(gk, (std::cmp::max(cn, n.clone()), merged));
                            }
                        }
                    }
                    let want: Result<BTreeMap<String, (String, Ty)>, Vec<&str>> = if faults.is_empty() { Ok(m) } else { Err(faults) };
                    // ---- the real encoder
                    let listing: BTreeSet<String> = g.imports().map(|(n, _, _)| group(n).to_string()).collect();
                    let show = || format!("instantiations (creation order) {:?}, explicit import variant {explicit} (created {})", order.iter().map(|i| uni[*i].0).collect::<Vec<_>>(), if explicit_first { "first" } else { "last" });
                    let r = std::panic::catch_unwind(std::panic::AssertUnwindSafe(|| g.encode(EncodeOptions::default())));
                    let r = match r { Ok(r) => r, Err(_) => { println!("C03-BOUNDED VIOLATION: CompositionGraph::encode PANICKED: {}", show()); std::process::exit(1); } };
                    match (&want, r) {
                        (Err(k), Err(e)) => {
                            rejected += 1;
                            let dbg = format!("{e:?}");
                            if !k.iter().any(|f| dbg.starts_with(f)) { println!("C03-BOUNDED VIOLATION: expected one of {k:?}, encode failed with {}: {}", dbg.lines().next().unwrap_or(""), show()); std::process::exit(1); }
                        }
                        (Err(k), Ok(_)) => { println!("C03-BOUNDED VIOLATION: conflicting imports ({k:?}) were encoded: {}", show()); std::process::exit(1); }
                        (Ok(_), Err(e)) => { println!("C03-BOUNDED VIOLATION: encode failed ({e:#}) for a conflict-free composition: {}", show()); std::process::exit(1); }
                        (Ok(w), Ok(bytes)) => {
                            encoded += 1;
                            let mut types = Types::default();
                            let out = Package::from_bytes("out", None, bytes, &mut types).unwrap_or_else(|e| { println!("C03-BOUNDED VIOLATION: the output does not decode ({e:#}): {}", show()); std::process::exit(1) });
                            let world = &types[out.ty()];
                            let got: BTreeMap<String, Ty> = world.imports.iter().map(|(n, k)| (n.clone(), describe(&types, *k).unwrap_or(Ty::Func))).collect();
                            let exp: BTreeMap<String, Ty> = w.values().map(|(n, t)| (n.clone(), t.clone())).collect();
                            if got != exp { println!("C03-BOUNDED VIOLATION: output imports {:?}, the property gives {:?}: {}", got, exp, show()); std::process::exit(1); }
                            let exports: BTreeSet<String> = world.exports.keys().cloned().collect();
                            if exports != designated { println!("C03-BOUNDED VIOLATION: output exports {:?}, designated {:?}: {}", exports, designated, show()); std::process::exit(1); }
                            let groups: BTreeSet<String> = w.keys().cloned().collect();
                            if listing != groups { println!("C03-BOUNDED VIOLATION: graph.imports() lists groups {:?}, the output imports groups {:?}: {}", listing, groups, show()); std::process::exit(1); }
                            match &first { None => first = Some((got, exports)), Some((g0, e0)) => if *g0 != got || *e0 != exports { println!("C03-BOUNDED VIOLATION: the interface depends on the creation order: {:?} vs {:?}: {}", g0, got, show()); std::process::exit(1); } }
                        }
                    }
                }
            }
        }
    }
    println!("C03-INTERFACE ok {{\"bounded\": true, \"max_instantiations\": {maxi}, \"compositions\": {comps}, \"encoded_and_decoded\": {encoded}, \"rejected_with_the_expected_error\": {rejected}}}");
}
