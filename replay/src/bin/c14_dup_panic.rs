//! Replay for C14: an interface that exports a function `f` and then declares a type `f` - Document::resolve panics
//! (`duplicate type in scope`) instead of reporting a duplicate name.  Exit 1 = panic observed.
use wac_parser::Document;
fn main() {
    let mut bad = 0;
    for src in ["package test:comp;\ninterface i { f: func(); record f { x: u32 } }\n", "package test:comp;\ninterface i { f: func(); resource f { } }\n", "package test:comp;\nworld w { import f: func(); record f { x: u32 } }\n", "package test:comp;\ninterface i { f: func(); type f = u8; }\n"] {
        let doc = Document::parse(src).unwrap();
        let r = std::panic::catch_unwind(std::panic::AssertUnwindSafe(|| doc.resolve(Default::default()).map(|_| ()).map_err(|e| e.to_string())));
        match r { Ok(x) => println!("{:?}  <-  {}", x, src.replace('\n', " ")), Err(_) => { bad += 1; println!("C14-REPLAY: Document::resolve PANICKED on {}", src.replace('\n', " ")); } }
    }
    std::process::exit(if bad > 0 { 1 } else { 0 });
}
