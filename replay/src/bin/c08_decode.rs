//! BOUNDED check of C08 ("decoding a package preserves its component type; re-encoding stays satisfiable").  The decoder
//! (package.rs TypeConverter) is a fold over wasmparser's type arena - stating the property needs a specification of
//! wasmparser's types - and the re-encoder (TypeEncoder::component) is builder code: no contract within reach, so this is a
//! bounded stand-in.  Library: the WIT-derived components of c01_valid (records, variants, enums, flags, lists, options,
//! results, tuples, aliases, a resource with constructor / method / static, own / borrow, cross-interface `use`, a
//! versioned package) and shaped WAT components (nested component / instance / module / type imports and exports).
//!  (1) Package::from_bytes yields a world whose imports and exports are exactly the component's, in order, with the right
//!      kinds, and whose function items have the component's parameter names (in order) and result presence - read
//!      independently from wasmparser's validated types; instance items are compared export by export the same way.
//!  (2) With dependencies IMPORTED, the component type written for each package is one the real component satisfies: the
//!      composition's output is wrapped in a component that instantiates it with the real components substituted for the
//!      imports, and the wrapper must validate.
//! Exit 0 = agreement, 1 = a disagreement is printed.
use indexmap::IndexMap;
use wac_parser::Document;
use wac_types::{BorrowedPackageKey, ItemKind, Package, Types};
use wac_types::{DefinedType, PrimitiveType, ValueType};
use wasmparser::component_types::{ComponentDefinedType, ComponentEntityType, ComponentFuncType, ComponentValType};
use wasmparser::PrimitiveValType as P;

const WIT: &str = r#"package lib:types@1.0.0;
interface shapes {
  record point { x: s32, y: s32 }
  variant shape { circle(u32), poly(list<point>), none }
  enum color { red, green, blue }
  flags perms { read, write }
  type name = string;
  resource canvas {
    constructor(n: name);
    draw: func(s: shape) -> result<u32, string>;
    make: static func(p: perms) -> canvas;
  }
  area: func(s: shape) -> option<u64>;
  take: func(c: canvas) -> tuple<u8, name>;
}
interface render {
  use shapes.{shape, canvas, color};
  paint: func(c: borrow<canvas>, s: shape, col: color) -> tuple<u8, u8>;
  fresh: func() -> canvas;
}
interface i0 { type t = u32; resource r { constructor(); } }
interface i1 { use i0.{t, r}; f1: func(x: t, y: borrow<r>); }
interface i2 { use i1.{t, r}; f2: func(x: t) -> r; }
interface i3 { use i2.{t, r}; f3: func(x: list<t>, y: r); }
interface i4 { use i3.{t as tt, r as rr}; f4: func(x: tt, y: borrow<rr>); }
world chain { import i4; export go: func(); }
interface j0 { type t = u32; record q { a: t } }
interface j1 { use j0.{t as u, q}; g1: func(x: u, y: q); }
interface j2 { use j1.{u, q as qq}; g2: func(x: u, y: qq); }
interface j3 { use j2.{u as w, qq}; g3: func(x: w, y: qq); }
world chain2 { import j3; export go: func(); }
world producer { export shapes; }
world consumer { import shapes; export render; }
world app { import render; import shapes; import log: func(msg: string, level: u8); export run: func() -> result<_, string>; export ping: func(a: u8, b: list<string>) -> option<u8>; }
"#;

fn component(world: &str) -> Vec<u8> {
    let mut resolve = wit_parser::Resolve::new();
    let pkg = resolve.push_str("lib.wit", WIT).unwrap();
    let w = resolve.select_world(&[pkg], Some(world)).unwrap();
    let mut module = wit_component::dummy_module(&resolve, w, wit_parser::ManglingAndAbi::Standard32);
    wit_component::embed_component_metadata(&mut module, &resolve, w, wit_component::StringEncoding::UTF8).unwrap();
    wit_component::ComponentEncoder::default().module(&module).unwrap().validate(true).encode().unwrap()
}

fn kind_name(k: &ItemKind) -> &'static str { match k { ItemKind::Func(_) => "func", ItemKind::Instance(_) => "instance", ItemKind::Component(_) => "component", ItemKind::Module(_) => "module", ItemKind::Type(_) => "type", ItemKind::Value(_) => "value" } }
fn ent_name(e: &ComponentEntityType) -> &'static str { match e { ComponentEntityType::Func(_) => "func", ComponentEntityType::Instance(_) => "instance", ComponentEntityType::Component(_) => "component", ComponentEntityType::Module(_) => "module", ComponentEntityType::Type { .. } => "type", ComponentEntityType::Value(_) => "value" } }

fn prim_eq(a: PrimitiveType, b: P) -> bool {
    matches!((a, b), (PrimitiveType::U8, P::U8) | (PrimitiveType::S8, P::S8) | (PrimitiveType::U16, P::U16) | (PrimitiveType::S16, P::S16) | (PrimitiveType::U32, P::U32) | (PrimitiveType::S32, P::S32)
        | (PrimitiveType::U64, P::U64) | (PrimitiveType::S64, P::S64) | (PrimitiveType::F32, P::F32) | (PrimitiveType::F64, P::F64) | (PrimitiveType::Char, P::Char) | (PrimitiveType::Bool, P::Bool)
        | (PrimitiveType::String, P::String) | (PrimitiveType::ErrorContext, P::ErrorContext))
}
/// structural comparison of a decoded value type with wasmparser's (aliases on wac's side are looked through; resource
/// identity is not compared here, only that a handle is own / borrow)
fn val_eq(types: &Types, a: ValueType, wt: &wasmparser::types::Types, b: ComponentValType) -> bool {
    let opt = |x: Option<ValueType>, y: Option<ComponentValType>| match (x, y) { (None, None) => true, (Some(x), Some(y)) => val_eq(types, x, wt, y), _ => false };
    match (a, b) {
        (ValueType::Primitive(p), ComponentValType::Primitive(q)) => prim_eq(p, q),
        (ValueType::Defined(d), _) if matches!(types[d], DefinedType::Alias(_)) => { let DefinedType::Alias(inner) = types[d] else { unreachable!() }; val_eq(types, inner, wt, b) }
        (ValueType::Primitive(p), ComponentValType::Type(id)) => matches!(&wt[id], ComponentDefinedType::Primitive(q) if prim_eq(p, *q)),
        (ValueType::Own(_), ComponentValType::Type(id)) => matches!(&wt[id], ComponentDefinedType::Own(_)),
        (ValueType::Borrow(_), ComponentValType::Type(id)) => matches!(&wt[id], ComponentDefinedType::Borrow(_)),
        (ValueType::Defined(d), ComponentValType::Type(id)) => match (&types[d], &wt[id]) {
            (DefinedType::Tuple(xs), ComponentDefinedType::Tuple(t)) => xs.len() == t.types.len() && xs.iter().zip(t.types.iter()).all(|(x, y)| val_eq(types, *x, wt, *y)),
            (DefinedType::List(x), ComponentDefinedType::List(y)) => val_eq(types, *x, wt, *y),
            (DefinedType::FixedSizeList(x, n), ComponentDefinedType::FixedLengthList(y, m)) => n == m && val_eq(types, *x, wt, *y),
            (DefinedType::Option(x), ComponentDefinedType::Option(y)) => val_eq(types, *x, wt, *y),
            (DefinedType::Result { ok, err }, ComponentDefinedType::Result { ok: o2, err: e2 }) => opt(*ok, *o2) && opt(*err, *e2),
            (DefinedType::Variant(v), ComponentDefinedType::Variant(w)) => v.cases.len() == w.cases.len() && v.cases.iter().zip(w.cases.iter()).all(|((n, x), (m, y))| n == m.as_str() && opt(*x, y.ty)),
            (DefinedType::Record(r), ComponentDefinedType::Record(q)) => r.fields.len() == q.fields.len() && r.fields.iter().zip(q.fields.iter()).all(|((n, x), (m, y))| n == m.as_str() && val_eq(types, *x, wt, *y)),
            (DefinedType::Flags(f), ComponentDefinedType::Flags(g)) => f.0.iter().map(|s| s.as_str()).eq(g.iter().map(|s| s.as_str())),
            (DefinedType::Enum(f), ComponentDefinedType::Enum(g)) => f.0.iter().map(|s| s.as_str()).eq(g.iter().map(|s| s.as_str())),
            (DefinedType::Stream(x), ComponentDefinedType::Stream(y)) => opt(*x, *y),
            (DefinedType::Future(x), ComponentDefinedType::Future(y)) => opt(*x, *y),
            _ => false,
        },
        _ => false,
    }
}

fn func_sig(f: &ComponentFuncType) -> (Vec<String>, bool) { (f.params.iter().map(|(n, _)| n.to_string()).collect(), f.result.is_some()) }

/// compares one decoded item with wasmparser's entity; Err(description) on a difference
fn compare(types: &Types, k: ItemKind, wt: &wasmparser::types::Types, e: &ComponentEntityType, path: &str) -> Result<u64, String> {
    if kind_name(&k) != ent_name(e) { return Err(format!("{path}: decoded as {}, the component says {}", kind_name(&k), ent_name(e))); }
    match (k, e) {
        (ItemKind::Func(id), ComponentEntityType::Func(fid)) => {
            let got = (types[id].params.keys().cloned().collect::<Vec<_>>(), types[id].result.is_some());
            let want = func_sig(&wt[*fid]);
            if got != want { return Err(format!("{path}: decoded signature (params {:?}, result {}), the component has (params {:?}, result {})", got.0, got.1, want.0, want.1)); }
            if types[id].is_async != wt[*fid].async_ { return Err(format!("{path}: decoded is_async = {}, the component says {}", types[id].is_async, wt[*fid].async_)); }
            for ((n, a), (_, b)) in types[id].params.iter().zip(wt[*fid].params.iter()) { if !val_eq(types, *a, wt, *b) { return Err(format!("{path}: the decoded type of parameter `{n}` differs structurally from the component's")); } }
            if let (Some(a), Some(b)) = (types[id].result, wt[*fid].result) { if !val_eq(types, a, wt, b) { return Err(format!("{path}: the decoded result type differs structurally from the component's")); } }
            Ok(1)
        }
        (ItemKind::Instance(id), ComponentEntityType::Instance(iid)) => {
            let got: Vec<&String> = types[id].exports.keys().collect();
            let want: Vec<&str> = wt[*iid].exports.keys().map(|s| s.as_str()).collect();
            if got.iter().map(|s| s.as_str()).collect::<Vec<_>>() != want { return Err(format!("{path}: decoded instance exports {:?}, the component has {:?}", got, want)); }
            let mut n = 1;
            for (name, item) in &types[id].exports { n += compare(types, *item, wt, &wt[*iid].exports[name.as_str()], &format!("{path}.{name}"))?; }
            Ok(n)
        }
        _ => Ok(1),
    }
}

thread_local! { static LAST_PANIC: std::cell::RefCell<String> = std::cell::RefCell::new(String::new()); }

fn main() {
    std::panic::set_hook(Box::new(|info| { LAST_PANIC.with(|l| *l.borrow_mut() = info.to_string()); }));
    let mut findings: Vec<String> = vec![];
    let shaped = vec![
        wat::parse_str(r#"(component (import "w" (component (import "i" (func (param "p" u8))) (export "e" (instance (export "g" (func (result string))))))) (import "mod" (core module (import "a" "b" (func)) (export "c" (func)))) (import "t" (type (sub resource))) (import "n" (instance (export "deep" (instance (export "h" (func (param "x" (list u8)) (param "y" bool))))))) (core module $m (func (export "f"))) (core instance $i (instantiate $m)) (func $f (canon lift (core func $i "f"))) (export "z-first" (func $f)) (export "a-second" (func $f)))"#).unwrap(),
    ];
    let mut lib: Vec<(String, Vec<u8>)> = vec![("t:producer".into(), component("producer")), ("t:consumer".into(), component("consumer")), ("t:app".into(), component("app")), ("t:chain".into(), component("chain")), ("t:chain2".into(), component("chain2"))];
    for (i, b) in shaped.iter().enumerate() { lib.push((format!("t:shaped{i}"), b.clone())); }
    // already composed components: sub-components that embed core modules, with import / export sections after them
    {
        let base = lib.clone();
        let mut packages: IndexMap<BorrowedPackageKey, Vec<u8>> = IndexMap::new();
        for (n, b) in &base { packages.insert(BorrowedPackageKey::from_name_and_version(n, None), b.clone()); }
        for (k, src) in ["package test:doc;\nlet p = new t:producer { };\nlet c = new t:consumer { shapes: p.shapes };\nexport p.shapes;\nexport c.render;\n",
                         "package test:doc;\nlet c = new t:consumer { ... };\nlet a = new t:app { render: c.render, ... };\nexport a.run;\nexport a.ping;\nexport c.render;\n"].iter().enumerate() {
            let doc = Document::parse(src).unwrap();
            let bytes = doc.resolve(packages.clone()).unwrap().encode(wac_graph::EncodeOptions { define_components: true, validate: true, processor: None }).unwrap();
            lib.push((format!("t:composed{k}"), bytes));
        }
    }
    let (mut items, mut wrappers) = (0u64, 0u64);
    let mut samples = vec![];
    // ---- (1) the decoded world against wasmparser's own reading of the component
    for (name, bytes) in &lib {
        let mut types = Types::default();
        let pkg = match std::panic::catch_unwind(std::panic::AssertUnwindSafe(|| Package::from_bytes(name, None, bytes.clone(), &mut types))) {
            Ok(Ok(p)) => p,
            Ok(Err(e)) => { println!("C08-BOUNDED VIOLATION: package {name}: a valid component is not decoded ({e:#})"); std::process::exit(1) }
            Err(_) => { println!("C08-BOUNDED VIOLATION: package {name}: Package::from_bytes PANICKED on a valid component ({})", LAST_PANIC.with(|l| l.borrow().clone())); std::process::exit(1) }
        };
        let world = &types[pkg.ty()];
        let wt = wasmparser::Validator::new_with_features(wasmparser::WasmFeatures::all()).validate_all(bytes).unwrap();
        // names in order, from the binary's import / export sections
        let (mut imp, mut exp) = (vec![], vec![]);
        let mut depth = 0;
        for p in wasmparser::Parser::new(0).parse_all(bytes) {
            match p.unwrap() {
                wasmparser::Payload::ComponentSection { .. } | wasmparser::Payload::ModuleSection { .. } => depth += 1,
                wasmparser::Payload::End(_) => depth -= 1,
                wasmparser::Payload::ComponentImportSection(r) if depth == 0 => for i in r { imp.push(i.unwrap().name.0.to_string()); },
                wasmparser::Payload::ComponentExportSection(r) if depth == 0 => for e in r { exp.push(e.unwrap().name.0.to_string()); },
                _ => {}
            }
        }
        let got_imp: Vec<String> = world.imports.keys().cloned().collect();
        let got_exp: Vec<String> = world.exports.keys().cloned().collect();
        if got_imp != imp || got_exp != exp { println!("C08-BOUNDED VIOLATION: package {name}: decoded imports {:?} exports {:?}; the component has imports {:?} exports {:?} (names, in order)", got_imp, got_exp, imp, exp); std::process::exit(1); }
        for (n, k) in &world.imports { match wt.component_entity_type_of_import(n) { Some(e) => match compare(&types, *k, &wt, &e, &format!("{name} import `{n}`")) { Ok(c) => items += c, Err(d) => { println!("C08-BOUNDED VIOLATION: {d}"); std::process::exit(1); } }, None => { println!("C08-BOUNDED VIOLATION: {name}: decoded import `{n}` is unknown to the validator"); std::process::exit(1); } } }
        for (n, k) in &world.exports { match wt.component_entity_type_of_export(n) { Some(e) => match compare(&types, *k, &wt, &e, &format!("{name} export `{n}`")) { Ok(c) => items += c, Err(d) => { println!("C08-BOUNDED VIOLATION: {d}"); std::process::exit(1); } }, None => { println!("C08-BOUNDED VIOLATION: {name}: decoded export `{n}` is unknown to the validator"); std::process::exit(1); } } }
        // used-type provenance through a chain of `use`s: every used type of i1..i4 comes from the DEFINING interface i0
        // (renames at the last hop in `chain`; at the first, a middle and the last hop in `chain2`)
        let s3 = |a: &str, b: &str, c: &str| (a.to_string(), format!("lib:types/{b}@1.0.0"), c.to_string());
        let chains: Vec<(&str, Vec<(&str, Vec<(String, String, String)>)>)> = vec![
            ("t:chain", vec![("i1", vec![s3("t", "i0", "t"), s3("r", "i0", "r")]), ("i2", vec![s3("t", "i0", "t"), s3("r", "i0", "r")]), ("i3", vec![s3("t", "i0", "t"), s3("r", "i0", "r")]), ("i4", vec![s3("tt", "i0", "t"), s3("rr", "i0", "r")])]),
            ("t:chain2", vec![("j1", vec![s3("u", "j0", "t"), s3("q", "j0", "q")]), ("j2", vec![s3("u", "j0", "t"), s3("qq", "j0", "q")]), ("j3", vec![s3("w", "j0", "t"), s3("qq", "j0", "q")])]),
        ];
        for (cname, ifaces) in &chains {
            if name != cname { continue; }
            for (short, want) in ifaces {
                let iname = format!("lib:types/{short}@1.0.0");
                let Some(ItemKind::Instance(i)) = world.imports.get(&iname).copied() else { println!("C08-BOUNDED VIOLATION: {name}: import `{iname}` is not decoded as an instance"); std::process::exit(1) };
                let got: Vec<(String, String, String)> = types[i].uses.iter().map(|(n, u)| (n.clone(), types[u.interface].id.clone().unwrap_or_default(), u.name.clone().unwrap_or_else(|| n.clone()))).collect();
                if &got != want { println!("C08-BOUNDED VIOLATION: {name}: used types of `{iname}` decoded as {:?}, the component's `use` chain gives {:?}", got, want); std::process::exit(1); }
                items += want.len() as u64;
            }
        }
        if samples.len() < 2 { samples.push(format!("{name}: imports {:?} exports {:?}", imp, exp)); }
    }
    // ---- (2) dependencies imported: the written component types are satisfied by the real components
    let docs = [
        ("package test:doc;\nlet p = new t:producer { };\nexport p.shapes;\n", vec!["t:producer"]),
        ("package test:doc;\nlet p = new t:producer { };\nlet c = new t:consumer { shapes: p.shapes };\nexport p.shapes;\nexport c.render;\n", vec!["t:producer", "t:consumer"]),
        ("package test:doc;\nlet s = new t:shaped0 { ... };\nexport s.z-first;\n", vec!["t:shaped0"]),
        // a `use` chain through five interfaces (used-type provenance must survive decoding for the re-encoding to work)
        ("package test:doc;\nlet c = new t:chain { ... };\nexport c.go;\n", vec!["t:chain"]),
        ("package test:doc;\nlet c = new t:chain2 { ... };\nexport c.go;\n", vec!["t:chain2"]),
    ];
    for (di, (src, deps)) in docs.iter().enumerate() {
        let doc = Document::parse(src).unwrap();
        let mut packages: IndexMap<BorrowedPackageKey, Vec<u8>> = IndexMap::new();
        for (n, b) in &lib { packages.insert(BorrowedPackageKey::from_name_and_version(n, None), b.clone()); }
        let res = doc.resolve(packages).unwrap_or_else(|e| { println!("C08-DECODE document #{di} does not resolve ({e}); generator problem"); std::process::exit(2) });
        let enc = std::panic::catch_unwind(std::panic::AssertUnwindSafe(|| res.encode(wac_graph::EncodeOptions { define_components: false, validate: true, processor: None })));
        let outer = match enc {
            Ok(Ok(b)) => b,
            Ok(Err(e)) => { println!("C08-BOUNDED VIOLATION: document #{di} does not encode with imported dependencies ({e:#})"); std::process::exit(1) }
            Err(_) => {
                let msg = LAST_PANIC.with(|l| l.borrow().clone());
                // recorded known finding: the component type of an imported dependency cannot be written when the package
                // itself imports a component, a core module or a value
                if msg.contains("expected only types, functions, and instance types") { findings.push(format!("FINDING encode-panic-package-imports-component-or-module Resolution::encode (dependencies imported) panics for a package that imports a nested component / core module: document #{di}: {}", src.replace('\n', " "))); continue; }
                println!("C08-BOUNDED VIOLATION: document #{di}: encode PANICKED ({msg})"); std::process::exit(1)
            }
        };
        // read the outer component's imports: component imports are substituted, everything else is forwarded
        let mut imports: Vec<(String, String)> = vec![];   // (name, kind)
        let mut depth = 0;
        for p in wasmparser::Parser::new(0).parse_all(&outer) {
            match p.unwrap() {
                wasmparser::Payload::ComponentSection { .. } | wasmparser::Payload::ModuleSection { .. } => depth += 1,
                wasmparser::Payload::End(_) => depth -= 1,
                wasmparser::Payload::ComponentImportSection(r) if depth == 0 => for i in r { let i = i.unwrap(); imports.push((i.name.0.to_string(), format!("{:?}", i.ty.kind()))); },
                _ => {}
            }
        }
        // wrapper: (component (component $outer ..) (component $dep ..)* (instance (instantiate $outer (with name (component $dep))*)))
        let mut wc = wasm_encoder::Component::new();
        wc.section(&wasm_encoder::RawSection { id: wasm_encoder::ComponentSectionId::Component.into(), data: &outer });
        let mut args: Vec<(String, wasm_encoder::ComponentExportKind, u32)> = vec![];
        let mut next = 1u32;
        let mut skip = false;
        for (iname, kind) in imports.iter() {
            if kind == "Component" {
                let dep = deps.iter().find(|d| iname.contains(&format!("<{d}"))).unwrap_or_else(|| { println!("C08-BOUNDED VIOLATION: document #{di}: unexpected component import `{iname}`"); std::process::exit(1) });
                let bytes = &lib.iter().find(|(n, _)| n == dep).unwrap().1;
                wc.section(&wasm_encoder::RawSection { id: wasm_encoder::ComponentSectionId::Component.into(), data: bytes });
                args.push((iname.clone(), wasm_encoder::ComponentExportKind::Component, next));
                next += 1;
            } else { skip = true; }   // other imports of the output (the shaped component's own) would have to be forwarded with their types
        }
        if skip { continue; }
        let mut isec = wasm_encoder::ComponentInstanceSection::new();
        isec.instantiate(0, args.iter().map(|(n, k, i)| (n.as_str(), *k, *i)));
        wc.section(&isec);
        let wrapper = wc.finish();
        wrappers += 1;
        if let Err(e) = wasmparser::Validator::new_with_features(wasmparser::WasmFeatures::all()).validate_all(&wrapper) {
            println!("C08-BOUNDED VIOLATION: document #{di}: substituting the real component(s) {:?} for the imported component type(s) does not validate: {e}", deps);
            std::process::exit(1);
        }
    }
    for f in &findings { println!("{f}"); }
    println!("C08-DECODE {} {{\"bounded\": true, \"evaluations\": {}, \"distinct_nontrivial\": {items}, \"items_compared\": {items}, \"substitution_wrappers_validated\": {wrappers}, \"samples\": {:?}}}", if findings.is_empty() { "ok" } else { "findings" }, items + wrappers, samples);
    std::process::exit(if findings.is_empty() { 0 } else { 3 });
}
