//! BOUNDED cross-check for C15 (witness search / assumption validation for unit U1): compares the REAL
//! are_semver_compatible and NameMap with a direct transcription of the property statement on a small universe:
//! all ordered pairs of names, and all insertion sequences (with repetition) of up to `len` entries, each followed by a
//! lookup of every name of the universe.  Exit 0 = agreement, 1 = a disagreeing case is printed.
//! usage: c15_names [len]
use wac_types::{are_semver_compatible, NameMap, NameMapNoIntern};

#[derive(Clone, Debug, PartialEq)]
struct Ver { major: u64, minor: u64, patch: u64, pre: String, build: String }

fn num(s: &str) -> Option<u64> {
    if s.is_empty() || !s.bytes().all(|b| b.is_ascii_digit()) || (s.len() > 1 && s.starts_with('0')) { return None; }
    s.parse().ok()
}
fn ident_ok(s: &str, numeric_no_leading_zero: bool) -> bool {
    !s.is_empty() && s.split('.').all(|p| !p.is_empty() && p.bytes().all(|b| b.is_ascii_alphanumeric() || b == b'-')
        && !(numeric_no_leading_zero && p.len() > 1 && p.starts_with('0') && p.bytes().all(|b| b.is_ascii_digit())))
}
/// SemVer 2.0 as far as this universe needs it
fn parse(v: &str) -> Option<Ver> {
    let (rest, build) = match v.split_once('+') { Some((r, b)) => (r, b.to_string()), None => (v, String::new()) };
    if v.contains('+') && !ident_ok(&build, false) { return None; }
    let (core, pre) = match rest.split_once('-') { Some((c, p)) => (c, p.to_string()), None => (rest, String::new()) };
    if rest.contains('-') && !ident_ok(&pre, true) { return None; }
    let mut it = core.split('.');
    let (a, b, c) = (num(it.next()?)?, num(it.next()?)?, num(it.next()?)?);
    if it.next().is_some() { return None; }
    Some(Ver { major: a, minor: b, patch: c, pre, build })
}
/// the compatibility track of a name: (name before '@', major) or (name, 0.minor); None for unversioned, malformed, pre-release, 0.0.x
fn track(n: &str) -> Option<(String, u64, u64)> {
    let (base, v) = n.split_once('@')?;
    let v = parse(v)?;
    if !v.pre.is_empty() { return None; }
    if v.major > 0 { Some((base.to_string(), v.major, u64::MAX)) } else if v.minor > 0 { Some((base.to_string(), 0, v.minor)) } else { None }
}
fn compatible(a: &str, b: &str) -> bool { a == b || (track(a).is_some() && track(a) == track(b)) }
fn release_key(n: &str) -> (u64, u64, u64) { let v = parse(n.split_once('@').unwrap().1).unwrap(); (v.major, v.minor, v.patch) }

fn main() {
    let len: usize = std::env::args().nth(1).and_then(|s| s.parse().ok()).unwrap_or(3);
    let mut names: Vec<String> = vec!["a:b/c".into(), "x:y/z".into(), "a:b/c@".into(), "a:b/c@1".into(), "a:b/c@1.0".into(), "a:b/c@01.0.0".into(), "a:b/c@1.0.0.0".into(), "a:b/c@1.2.3@4".into()];
    for base in ["a:b/c", "x:y/z"] {
        for (ma, mi, pa) in [(0, 0, 1), (0, 1, 0), (0, 1, 2), (0, 2, 0), (1, 0, 0), (1, 2, 0), (1, 2, 10), (2, 0, 0), (10, 0, 0)] {
            for pre in ["", "-rc.1"] { for build in ["", "+meta.5"] { names.push(format!("{base}@{ma}.{mi}.{pa}{pre}{build}")); } }
        }
    }
    let mut pairs = 0u64;
    for a in &names { for b in &names {
        pairs += 1;
        let (got, exp) = (are_semver_compatible(a, b), compatible(a, b));
        if got != exp { println!("C15-BOUNDED VIOLATION: are_semver_compatible({a:?}, {b:?}) = {got}, the track relation says {exp}"); std::process::exit(1); }
    } }
    // insertion sequences over a smaller universe; two entries differ only in build metadata (equal precedence): for those the
    // answer may be either, but it must not depend on the insertion order (checked across all orders of the same entries)
    let mut by_multiset: std::collections::HashMap<(Vec<&str>, &str), Option<&str>> = std::collections::HashMap::new();
    let small: Vec<&str> = vec!["a:b/c", "a:b/c@0.0.1", "a:b/c@0.1.0", "a:b/c@0.1.2", "a:b/c@1.0.0", "a:b/c@1.2.0", "a:b/c@1.2.10", "a:b/c@1.0.1-rc.1", "a:b/c@2.0.0+meta.5", "x:y/z@1.2.0", "a:b/c@0.2.0", "a:b/c@1.2.10+meta.5"];
    let queries: Vec<&str> = small.iter().cloned().chain(["a:b/c@1.9.9", "a:b/c@0.1.9", "x:y/z@1.0.0", "a:b/c@2.5.0", "a:b/c@0.0.2", "q"]).collect();
    let mut seqs = 0u64; let mut lookups = 0u64; let mut nontrivial = 0u64; let mut samples = vec![];
    let mut idx = vec![0usize; len];
    'outer: for l in 1..=len {
        for k in 0..l { idx[k] = 0; }
        loop {
            let seq: Vec<&str> = idx[..l].iter().map(|&i| small[i]).collect();
            seqs += 1;
            let mut map = NameMap::default();
            let mut intern = NameMapNoIntern;
            let mut defs: Vec<(&str, usize)> = vec![];
            for (pos, n) in seq.iter().enumerate() {
                let shadow = pos % 2 == 1;
                let r = map.insert(n, &mut intern, shadow, pos);
                let dup = defs.iter().any(|(m, _)| m == n);
                if r.is_err() != (dup && !shadow) { println!("C15-BOUNDED VIOLATION: insert {n:?} (allow_shadowing={shadow}) after {defs:?} returned {:?}", r.is_ok()); std::process::exit(1); }
                if r.is_ok() { defs.retain(|(m, _)| m != n); defs.push((n, pos)); }
            }
            for q in &queries {
                lookups += 1;
                let got = map.get(q, &intern).copied();
                let exp = match defs.iter().find(|(m, _)| m == q) {
                    Some((_, v)) => Some(*v),
                    None => match track(q) {
                        None => None,
                        Some(t) => defs.iter().filter(|(m, _)| track(m) == Some(t.clone())).max_by_key(|(m, _)| release_key(m)).map(|(_, v)| *v),
                    },
                };
                if exp.is_some() && !defs.iter().any(|(m, _)| m == q) { nontrivial += 1; }
                // entries of equal precedence (same release version, different build metadata) are interchangeable for `exp`
                let name_of = |v: Option<usize>| v.and_then(|v| defs.iter().find(|(_, p)| *p == v).map(|(m, _)| *m));
                let tie_ok = match (name_of(got), name_of(exp)) { (Some(g), Some(e)) => g != e && track(g) == track(e) && track(g).is_some() && release_key(g) == release_key(e) && !defs.iter().any(|(m, _)| m == q), _ => false };
                if got != exp && !tie_ok { println!("C15-BOUNDED VIOLATION: after inserting {seq:?}, get({q:?}) = {got:?}, expected {exp:?} (exact match, else highest version on the track)"); std::process::exit(1); }
                // ... but the choice must not depend on the insertion order (only for sequences without repeated names, where
                // positions identify entries and shadowing plays no role)
                let mut sorted: Vec<&str> = seq.clone(); sorted.sort(); let distinct = sorted.windows(2).all(|w| w[0] != w[1]);
                if distinct {
                    let gn = name_of(got);
                    match by_multiset.get(&(sorted.clone(), *q)) {
                        None => { by_multiset.insert((sorted, *q), gn); }
                        Some(prev) => if *prev != gn { println!("C15-BOUNDED VIOLATION: get({q:?}) depends on the insertion order of {sorted:?}: {prev:?} in one order, {gn:?} after inserting {seq:?}"); std::process::exit(1); }
                    }
                }
            }
            if samples.len() < 3 && l == len && seqs % 97 == 0 { samples.push(format!("{seq:?}")); }
            // next index vector
            let mut k = 0;
            loop { if k == l { break; } idx[k] += 1; if idx[k] < small.len() { break; } idx[k] = 0; k += 1; }
            if k == l { break; }
            if seqs > 5_000_000 { break 'outer; }
        }
    }
    println!("C15-BOUNDED ok {{\"bounded\": true, \"names\": {}, \"name_pairs\": {pairs}, \"max_insertions\": {len}, \"insertion_sequences\": {seqs}, \"lookups\": {lookups}, \"semver_fallback_lookups\": {nontrivial}, \"samples\": {samples:?}}}", names.len());
}
